// Writes $OUT_DIR/repo_mods.rs declaring the server's modules by absolute #[path]
// into $VERIF_REPO (default /repo), so the harness rebuilds from that working tree.
use std::env;
use std::fs;
use std::path::Path;

fn main() {
    let repo = env::var("VERIF_REPO").unwrap_or_else(|_| "/repo".to_string());
    println!("cargo:rerun-if-env-changed=VERIF_REPO");
    let main_rs = format!("{}/src/main.rs", repo);
    println!("cargo:rerun-if-changed={}", main_rs);
    let src = fs::read_to_string(&main_rs).expect("cannot read repo src/main.rs");
    let mut out = String::new();
    let mut pending_cfg: Option<String> = None;
    let mut seen = vec![];
    for line in src.lines() {
        let t = line.trim();
        if t.starts_with("#[cfg(") {
            pending_cfg = Some(t.to_string());
            continue;
        }
        if let Some(rest) = t.strip_prefix("mod ") {
            if let Some(name) = rest.strip_suffix(';') {
                let name = name.trim();
                let file = format!("{}/src/{}.rs", repo, name);
                let dirfile = format!("{}/src/{}/mod.rs", repo, name);
                let path = if Path::new(&file).exists() { file } else { dirfile };
                println!("cargo:rerun-if-changed={}", path);
                if let Some(c) = pending_cfg.take() {
                    out.push_str(&c);
                    out.push('\n');
                }
                out.push_str(&format!("#[path = \"{}\"]\nmod {};\n", path, name));
                seen.push(name.to_string());
            }
        }
        pending_cfg = None;
    }
    for need in ["command", "config", "reply", "state", "utils", "verif_seam"] {
        if !seen.iter().any(|s| s == need) {
            panic!("repo main.rs does not declare module `{}` (hooks missing?)", need);
        }
    }
    let out_dir = env::var("OUT_DIR").unwrap();
    fs::write(Path::new(&out_dir).join("repo_mods.rs"), out).unwrap();
    println!("cargo:rustc-env=VERIF_REPO_PATH={}", repo);
}
