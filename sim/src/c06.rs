// c06.rs - C06: every way a session ends leaves no trace (fault enumeration:
// every ending kind x several positions of every generated history, audited by survivors).

use crate::framework::*;
use crate::gen::*;
use crate::oracle::exec_model;
use crate::rt::Rng;
use crate::stepchecks::profile_for;
use crate::world::*;
use std::collections::HashMap;

pub(crate) struct C06;

pub(crate) const ENDINGS: &[&str] = &[
    "quit", "quit_reason", "eof", "eof_midline", "eof_midline_cr", "reset", "halfopen_eof", "halfopen_reset", "kill_by_oper", "self_kill",
    "bad_utf8", "reset_unread_output", "close_unread_output", "two_at_once", "quit_and_eof_same_segment", "line_too_long", "too_long_unterminated", "kill_stuck_then_reuse",
];
const POSITIONS: u64 = 5;

fn config(r: &mut Rng) -> SimConfig {
    let mut cfg = SimConfig::default();
    cfg.operators.push(OperCfg { name: "root".into(), password: "rootpw".into(), mask: None });
    cfg.max_joins = [None, None, Some(2), Some(3)][r.below(4)];
    if r.chance(1, 3) {
        cfg.channels.push(ChanCfg {
            name: "#pre".into(),
            topic: if r.chance(1, 2) { Some("cfg topic".into()) } else { None },
            operators: vec!["ann".into()],
            voices: vec!["bob".into()],
            invite_only: r.chance(1, 4),
            ..Default::default()
        });
    }
    if r.chance(1, 5) {
        cfg.default_user_modes.wallops = true;
    }
    if r.chance(1, 6) {
        cfg.default_user_modes.invisible = true;
    }
    cfg
}

fn audit(g: &mut Gen, obs: usize, nicks: &[String], chans: &[String], with_whowas: bool) {
    for ch in chans {
        g.say(obs, &format!("NAMES {}", ch));
        g.say(obs, &format!("WHO {}", ch));
        g.say(obs, &format!("MODE {}", ch));
    }
    for n in nicks {
        g.say(obs, &format!("WHOIS {}", n));
        if with_whowas {
            g.say(obs, &format!("WHOWAS {}", n));
        }
    }
    g.say(obs, &format!("ISON {}", nicks.join(" ")));
    g.say(obs, "LUSERS");
    g.say(obs, "LIST");
    g.say(obs, "NAMES");
}

impl Check for C06 {
    fn id(&self) -> &'static str {
        "C06"
    }
    fn level(&self) -> &'static str {
        "fault_enumeration"
    }
    fn runs(&self, tier: Tier) -> u64 {
        let per_history = ENDINGS.len() as u64 * POSITIONS;
        match tier {
            Tier::Quick => 400 * per_history,
            Tier::Thorough => 8000 * per_history,
        }
    }
    fn rule(&self) -> String {
        format!(
            "fault enumeration: for every generated history H (model-guided, 3-6 connections, memberships, ranks, +i/+w/oper, away, invitations) each of {} ending kinds {:?} \
             is applied to a victim at each of {} positions of H (run index = history x kind x position); survivors audit before and after with NAMES/WHO/MODE per channel, \
             WHOIS/WHOWAS/ISON, LUSERS, LIST, a WALLOPS, re-registration under the freed nickname, re-creation of emptied channels and use of pending invitations. \
             distinct+nontrivial = (ending kind, position, victim state cell: #channels, highest rank, last-member?, oper?, +w?, away?, invited?) + model outcome labels of the audit.",
            ENDINGS.len(),
            ENDINGS,
            POSITIONS
        )
    }
    fn assumptions(&self) -> Vec<String> {
        vec![
            "ping-timeout endings are exercised by the C17 check (timed mode), DIE by C11".into(),
            "'closing the socket with unread output pending' is a full close: reads reach EOF/reset and the server's writes fail; a half-closed peer that never reads is not an ending".into(),
            "an audit discrepancy is attributed to C06 only when the same probes were clean before the ending".into(),
        ]
    }
    fn probes(&self) -> Vec<&'static str> {
        vec!["end/eof/registered", "end/reset/registered", "end/quit/registered", "end/kill/other", "end/bad_utf8/registered", "end/too_long/registered", "fault/half_open", "victim_last_member", "victim_had_rank", "victim_oper", "victim_invited_other"]
    }

    fn gen(&self, _run_seed: u64, idx: u64, _tier: Tier) -> Trace {
        let k = ENDINGS.len() as u64;
        let kind = ENDINGS[(idx % k) as usize];
        let pos = (idx / k) % POSITIONS;
        let hist = idx / (k * POSITIONS);
        // the history depends only on `hist` (and the batch seed folded into run_seed's high part is not used:
        // enumeration must pair every kind/position with the same history)
        let hseed = crate::rt::mix(0xC06, hist) ^ (_run_seed & 0xffff_0000_0000_0000);
        if kind == "kill_stuck_then_reuse" {
            // a directed scenario with its own (model-free) oracle: see stuck.rs
            let mut t = crate::stuck::gen("C06", crate::rt::mix(hseed, idx));
            t.params.insert("ending".to_string(), kind.to_string());
            t.params.insert("position".to_string(), pos.to_string());
            return t;
        }
        let mut r = Rng::new(hseed);
        let cfg = config(&mut r.fork(3));
        let mut prof = profile_for("C06");
        let base_len = r.range(8, 30);
        let n = std::cmp::max(2, base_len * (pos as usize + 1) / POSITIONS as usize);
        prof.steps = (n, n);
        prof.pre_register = 4;
        prof.conns = (4, 6);
        let mut g = Gen::new(r.next_u64(), &cfg, &prof);
        g.setup();
        // an operator for KILL / WALLOPS (connection 0)
        g.say(0, "OPER root rootpw");
        g.run();
        let mut r2 = Rng::new(crate::rt::mix(hseed, idx));
        let mut params = HashMap::new();
        params.insert("ending".to_string(), kind.to_string());
        params.insert("position".to_string(), pos.to_string());
        params.insert("history".to_string(), hist.to_string());
        // victim: a registered connection other than the observer; observer: another registered one
        let regs: Vec<usize> = (0..g.m.conns.len()).filter(|&c| g.m.conns[c].alive && g.m.conns[c].registered && !g.m.conns[c].deaf).collect();
        if regs.len() >= 2 && !g.m.server_quit {
            let vi = r2.below(regs.len());
            let victim = regs[vi];
            let others: Vec<usize> = regs.iter().copied().filter(|&c| c != victim).collect();
            let obs = others[r2.below(others.len())];
            let vnick = g.m.conns[victim].nick.clone().unwrap();
            let vu = g.m.users[&vnick].clone();
            let vchans: Vec<String> = vu.chans.iter().cloned().collect();
            let mut cell = format!("ch{}", std::cmp::min(vchans.len(), 3));
            let mut last_member = false;
            let mut best = 0u8;
            for ch in &vchans {
                let c = &g.m.chans[ch];
                if c.members.len() == 1 {
                    last_member = true;
                }
                best = std::cmp::max(best, c.members[&vnick].code());
            }
            cell.push_str(&format!("/rank{}/last{}/o{}w{}i{}/away{}/inv{}", best, last_member as u8, vu.modes.is_oper() as u8, vu.modes.w as u8, vu.modes.i as u8, vu.away.is_some() as u8, !vu.invited.is_empty() as u8));
            params.insert("victim_cell".to_string(), cell);
            // sometimes the victim has an open capability request (a registered client may send CAP at any time)
            if r2.chance(1, 5) {
                g.say(victim, ["CAP LS 302", "CAP REQ :multi-prefix", "CAP LIST"][r2.below(3)]);
            }
            // sometimes the victim has just invited somebody to one of its channels (the invitation must outlive the
            // victim and, if the victim was the last member, the channel)
            if !vchans.is_empty() && r2.chance(1, 3) {
                let ch = vchans[r2.below(vchans.len())].clone();
                let cands: Vec<String> = g.m.users.values().filter(|u| u.nick != vnick && !u.chans.contains(&ch)).map(|u| u.nick.clone()).collect();
                if !cands.is_empty() {
                    let inv = cands[r2.below(cands.len())].clone();
                    g.say(victim, &format!("INVITE {} {}", inv, ch));
                }
            }
            let invited_others: Vec<(String, String)> = g.m.users.values().filter(|u| u.nick != vnick).flat_map(|u| u.invited.iter().map(move |c| (u.nick.clone(), c.clone()))).collect();
            params.insert("flags".to_string(), format!("{}{}{}{}", if last_member { "victim_last_member " } else { "" }, if best > 0 { "victim_had_rank " } else { "" }, if vu.modes.is_oper() { "victim_oper " } else { "" }, if !invited_others.is_empty() { "victim_invited_other " } else { "" }));
            // other registered nicks to audit too ("nothing else changes")
            let mut nicks: Vec<String> = vec![vnick.clone()];
            for &o in others.iter().take(2) {
                nicks.push(g.m.conns[o].nick.clone().unwrap());
            }
            let mut chans = vchans.clone();
            for ch in g.m.chans.keys() {
                if !chans.contains(ch) && chans.len() < 4 {
                    chans.push(ch.clone());
                }
            }
            // the victim's nickname may already have a WHOWAS history of some depth (the same for every kind/position of a history)
            let depth = [0usize, 0, 0, 0, 1, 2, 5, 9, 13][Rng::new(crate::rt::mix(hseed, 0xD3)).below(9)];
            for i in 0..depth {
                g.say(victim, &format!("NICK tmp{}", i % 2));
                g.say(victim, &format!("NICK {}", vnick));
            }
            params.insert("whowas_depth".to_string(), depth.to_string());
            // observer joins nothing new: it just asks. Before:
            audit(&mut g, obs, &nicks, &chans, false);
            g.mark("ctx:C06");
            let second = others.iter().copied().find(|&c| c != obs);
            match kind {
                "quit" => {
                    g.say(victim, "QUIT");
                }
                "quit_reason" => {
                    g.say(victim, "QUIT :bye now");
                }
                "eof" => {
                    g.emit(vec![Action::CloseWrite { c: victim }]);
                }
                "eof_midline" | "eof_midline_cr" => {
                    let full = format!("PRIVMSG {} :partial text never terminated", g.m.conns[obs].nick.clone().unwrap());
                    let cut = 1 + r2.below(full.len() - 1);
                    let mut d = full.as_bytes()[..cut].to_vec();
                    if kind == "eof_midline_cr" {
                        d.push(b'\r');
                    }
                    g.emit(vec![Action::Send { c: victim, d: esc(&d) }, Action::CloseWrite { c: victim }]);
                }
                "reset" => {
                    g.emit(vec![Action::Reset { c: victim }]);
                }
                "halfopen_eof" => {
                    g.emit(vec![Action::BreakWrites { c: victim }]);
                    g.say(obs, &format!("PRIVMSG {} :are you there", vnick));
                    g.emit(vec![Action::CloseWrite { c: victim }]);
                }
                "halfopen_reset" => {
                    g.emit(vec![Action::BreakWrites { c: victim }]);
                    g.say(victim, "PING stillhere");
                    g.emit(vec![Action::Reset { c: victim }]);
                }
                "kill_by_oper" => {
                    if g.m.users.get(&g.m.conns[0].nick.clone().unwrap_or_default()).map_or(false, |u| u.modes.o) && victim != 0 {
                        g.say(0, &format!("KILL {} :enough", vnick));
                    } else {
                        g.say(victim, "QUIT");
                    }
                }
                "self_kill" => {
                    g.say(victim, "OPER root rootpw");
                    g.say(victim, &format!("KILL {} :seppuku", vnick));
                }
                "line_too_long" => {
                    let l = format!("PRIVMSG {} :{}\r\n", g.m.conns[obs].nick.clone().unwrap(), "w".repeat(2000 + r2.below(200)));
                    g.emit(vec![Action::Send { c: victim, d: esc(l.as_bytes()) }]);
                }
                "too_long_unterminated" => {
                    let l = format!("PRIVMSG {} :{}", g.m.conns[obs].nick.clone().unwrap(), "w".repeat(2000 + r2.below(200)));
                    g.emit(vec![Action::Send { c: victim, d: esc(l.as_bytes()) }]);
                }
                "bad_utf8" => {
                    g.emit(vec![Action::Send { c: victim, d: esc(b"PRIVMSG x :\xff\xfe broken\r\n") }]);
                }
                "reset_unread_output" | "close_unread_output" => {
                    g.actions.push(Action::Window { c: victim, n: 40 });
                    g.m.conns[victim].deaf = true;
                    for i in 0..6 {
                        g.say(obs, &format!("PRIVMSG {} :filler {} xxxxxxxxxxxxxxxxxxxxxxxxxxxxxxxxxxxxxxxxxxxxxxxxxxxxxxxxxxx", vnick, i));
                    }
                    if kind == "reset_unread_output" {
                        g.emit(vec![Action::Reset { c: victim }]);
                    } else {
                        g.emit(vec![Action::CloseWrite { c: victim }, Action::BreakWrites { c: victim }]);
                    }
                }
                "two_at_once" => {
                    if let Some(s2) = second {
                        nicks.push(g.m.conns[s2].nick.clone().unwrap());
                        g.emit(vec![Action::CloseWrite { c: victim }, Action::Reset { c: s2 }]);
                    } else {
                        g.emit(vec![Action::CloseWrite { c: victim }]);
                    }
                }
                _ => {
                    // QUIT and EOF in one segment
                    g.emit(vec![Action::line(victim, "QUIT :both"), Action::CloseWrite { c: victim }]);
                }
            }
            // After: the same probes plus WHOWAS
            audit(&mut g, obs, &nicks, &chans, true);
            // WALLOPS audience (connection 0 is an operator unless it was the victim)
            if g.m.conns[0].alive && g.m.conns[0].registered {
                g.say(0, "WALLOPS :audience check");
            }
            // the freed nickname is available at once
            let nc = g.open_conn();
            if g.m.conns[nc].alive {
                g.register(nc, &vnick, "newu");
                // channels the victim left empty are gone: joining creates them afresh
                for ch in &vchans {
                    g.say(nc, &format!("JOIN {}", ch));
                    g.say(nc, &format!("MODE {}", ch));
                    g.say(nc, &format!("TOPIC {}", ch));
                    if invited_others.iter().any(|(_, c)| c == ch) {
                        // make the invitation matter: invite-only from now on
                        g.say(nc, &format!("MODE {} +i", ch));
                    }
                }
            }
            // pending invitations of others still work
            for (n, ch) in invited_others.iter().take(2) {
                if let Some(u) = g.m.users.get(n) {
                    let c = u.conn;
                    g.say(c, &format!("JOIN {}", ch));
                }
            }
            // everybody else still answers
            for &o in others.iter() {
                if g.m.conns[o].alive && !g.m.conns[o].deaf {
                    g.say(o, "PING alive");
                }
            }
        }
        Trace { check: "C06".into(), seed: 0, run_seed: _run_seed, config: cfg, params, actions: g.actions }
    }

    fn exec(&self, trace: &Trace) -> Outcome {
        if trace.params.get("scenario").map_or(false, |s| s == "stuck_kill") {
            let mut o = crate::stuck::exec(trace, "C06");
            o.count("ending.kill_stuck_then_reuse", 1);
            return o;
        }
        let mut o = exec_model(trace, "C06");
        if let (Some(k), Some(p), Some(cell)) = (trace.params.get("ending"), trace.params.get("position"), trace.params.get("victim_cell")) {
            o.cov_keys.push(hash_key(&["ending", k, p, cell]));
            o.count(&format!("ending.{}", k), 1);
        }
        if let Some(f) = trace.params.get("flags") {
            for w in f.split_whitespace() {
                o.count(w, 1);
            }
        }
        o
    }
}
