// irc.rs - the harness's own IRC line tokeniser (reference grammar, RFC 1459/2812 / modern IRC):
//   [':' source SPACE] command {SPACE middle} [SPACE ':' trailing]
// split on SPACE only; trailing begins at the first " :" after the command.

#[derive(Clone, Debug, PartialEq, Eq, Hash, PartialOrd, Ord)]
pub(crate) struct Line {
    pub source: Option<String>,
    pub cmd: String,
    pub params: Vec<String>,
    pub had_trailing: bool,
}

pub(crate) fn parse(line: &str) -> Option<Line> {
    let mut rest = line.trim_start_matches(' ');
    if rest.is_empty() {
        return None;
    }
    let mut source = None;
    if let Some(r) = rest.strip_prefix(':') {
        let (s, r2) = match r.find(' ') {
            Some(i) => (&r[..i], &r[i + 1..]),
            None => (r, ""),
        };
        source = Some(s.to_string());
        rest = r2.trim_start_matches(' ');
    }
    if rest.is_empty() {
        return None;
    }
    let (cmd, mut rest) = match rest.find(' ') {
        Some(i) => (&rest[..i], &rest[i + 1..]),
        None => (rest, ""),
    };
    let mut params = vec![];
    let mut had_trailing = false;
    loop {
        rest = rest.trim_start_matches(' ');
        if rest.is_empty() {
            break;
        }
        if let Some(t) = rest.strip_prefix(':') {
            params.push(t.to_string());
            had_trailing = true;
            break;
        }
        match rest.find(' ') {
            Some(i) => {
                params.push(rest[..i].to_string());
                rest = &rest[i + 1..];
            }
            None => {
                params.push(rest.to_string());
                break;
            }
        }
    }
    Some(Line { source, cmd: cmd.to_string(), params, had_trailing })
}

impl Line {
    pub(crate) fn nick_of_source(&self) -> Option<&str> {
        self.source.as_deref().map(|s| s.split('!').next().unwrap_or(s))
    }
    pub(crate) fn p(&self, i: usize) -> &str {
        self.params.get(i).map(|s| s.as_str()).unwrap_or("")
    }
    pub(crate) fn is_numeric(&self) -> bool {
        self.cmd.len() == 3 && self.cmd.bytes().all(|b| b.is_ascii_digit())
    }
    /// canonical re-serialisation
    pub(crate) fn to_wire(&self) -> String {
        let mut s = String::new();
        if let Some(src) = &self.source {
            s.push(':');
            s.push_str(src);
            s.push(' ');
        }
        s.push_str(&self.cmd);
        for (i, p) in self.params.iter().enumerate() {
            s.push(' ');
            if i + 1 == self.params.len() && (self.had_trailing || p.is_empty() || p.contains(' ') || p.starts_with(':')) {
                s.push(':');
            }
            s.push_str(p);
        }
        s
    }
}

/// reference glob matcher on chars: '*' any run (possibly empty), '?' exactly one char
pub(crate) fn glob(mask: &str, text: &str) -> bool {
    let m: Vec<char> = mask.chars().collect();
    let t: Vec<char> = text.chars().collect();
    // iterative with backtracking to the last star
    let (mut mi, mut ti) = (0usize, 0usize);
    let (mut star, mut mark) = (usize::MAX, 0usize);
    while ti < t.len() {
        if mi < m.len() && (m[mi] == '?' || (m[mi] != '*' && m[mi] == t[ti])) {
            mi += 1;
            ti += 1;
        } else if mi < m.len() && m[mi] == '*' {
            star = mi;
            mark = ti;
            mi += 1;
        } else if star != usize::MAX {
            mi = star + 1;
            mark += 1;
            ti = mark;
        } else {
            return false;
        }
    }
    while mi < m.len() && m[mi] == '*' {
        mi += 1;
    }
    mi == m.len()
}

/// reference normal form of a list mask: nick -> nick!*@*, nick@host -> nick!*@host, nick!user -> nick!user@*
pub(crate) fn normal_mask(mask: &str) -> String {
    if let Some(p) = mask.find('!') {
        if mask[p + 1..].contains('@') {
            mask.to_string()
        } else {
            format!("{}@*", mask)
        }
    } else if let Some(p) = mask.find('@') {
        format!("{}!*{}", &mask[..p], &mask[p..])
    } else {
        format!("{}!*@*", mask)
    }
}
