// net.rs - simulated TCP connection: SimStream (server half, AsyncRead+AsyncWrite) and
// SimPeer (client half, synchronous calls made by the simulator between settles).
// TCP semantics are kept: per direction bytes are never lost, duplicated or reordered.

use crate::verif_seam::SimIo;
use std::collections::VecDeque;
use std::io;
use std::pin::Pin;
use std::sync::{Arc, Mutex};
use std::task::{Context, Poll, Waker};
use tokio::io::{AsyncRead, AsyncWrite, ReadBuf};

#[derive(Debug)]
pub(crate) struct Pipe {
    // client -> server
    c2s: VecDeque<u8>,
    c2s_eof: bool,
    read_err: bool,  // next server read fails with ECONNRESET
    read_cap: usize, // max bytes per poll_read (short reads)
    read_waker: Option<Waker>,
    // server -> client
    s2c: Vec<u8>,
    window: usize,    // bytes the client is still willing to accept
    write_cap: usize, // max bytes per poll_write (short writes)
    write_err: bool,  // server writes fail with EPIPE
    write_waker: Option<Waker>,
    pub server_dropped: bool,
    pub server_shutdown: bool,
    secure: bool,
    // statistics
    pub n_reads: u64,
    pub n_short_reads: u64,
    pub n_writes: u64,
    pub n_short_writes: u64,
    pub n_write_blocked: u64,
    pub bytes_in: u64,
    pub bytes_out: u64,
}

#[derive(Debug)]
pub(crate) struct SimStream {
    p: Arc<Mutex<Pipe>>,
}

#[derive(Debug, Clone)]
pub(crate) struct SimPeer {
    p: Arc<Mutex<Pipe>>,
}

pub(crate) fn pair(secure: bool) -> (SimStream, SimPeer) {
    let p = Arc::new(Mutex::new(Pipe {
        c2s: VecDeque::new(),
        c2s_eof: false,
        read_err: false,
        read_cap: usize::MAX,
        read_waker: None,
        s2c: Vec::new(),
        window: usize::MAX,
        write_cap: usize::MAX,
        write_err: false,
        write_waker: None,
        server_dropped: false,
        server_shutdown: false,
        secure,
        n_reads: 0,
        n_short_reads: 0,
        n_writes: 0,
        n_short_writes: 0,
        n_write_blocked: 0,
        bytes_in: 0,
        bytes_out: 0,
    }));
    (SimStream { p: p.clone() }, SimPeer { p })
}

impl SimIo for SimStream {
    fn sim_is_secure(&self) -> bool {
        self.p.lock().unwrap().secure
    }
}

impl Drop for SimStream {
    fn drop(&mut self) {
        if let Ok(mut p) = self.p.lock() {
            p.server_dropped = true;
        }
    }
}

impl AsyncRead for SimStream {
    fn poll_read(self: Pin<&mut Self>, cx: &mut Context<'_>, buf: &mut ReadBuf<'_>) -> Poll<io::Result<()>> {
        let mut p = self.p.lock().unwrap();
        if p.read_err {
            return Poll::Ready(Err(io::Error::new(io::ErrorKind::ConnectionReset, "sim: connection reset by peer")));
        }
        if !p.c2s.is_empty() {
            let n = std::cmp::min(std::cmp::min(p.c2s.len(), buf.remaining()), p.read_cap);
            if n < p.c2s.len() && n < buf.remaining() {
                p.n_short_reads += 1;
            }
            for _ in 0..n {
                let b = p.c2s.pop_front().unwrap();
                buf.put_slice(&[b]);
            }
            p.n_reads += 1;
            p.bytes_in += n as u64;
            return Poll::Ready(Ok(()));
        }
        if p.c2s_eof {
            return Poll::Ready(Ok(())); // EOF
        }
        p.read_waker = Some(cx.waker().clone());
        Poll::Pending
    }
}

impl AsyncWrite for SimStream {
    fn poll_write(self: Pin<&mut Self>, cx: &mut Context<'_>, buf: &[u8]) -> Poll<io::Result<usize>> {
        let mut p = self.p.lock().unwrap();
        if p.write_err {
            return Poll::Ready(Err(io::Error::new(io::ErrorKind::BrokenPipe, "sim: broken pipe")));
        }
        if buf.is_empty() {
            return Poll::Ready(Ok(0));
        }
        if p.window == 0 {
            p.n_write_blocked += 1;
            p.write_waker = Some(cx.waker().clone());
            return Poll::Pending;
        }
        let n = std::cmp::min(std::cmp::min(buf.len(), p.window), p.write_cap);
        if n < buf.len() {
            p.n_short_writes += 1;
        }
        p.s2c.extend_from_slice(&buf[..n]);
        if p.window != usize::MAX {
            p.window -= n;
        }
        p.n_writes += 1;
        p.bytes_out += n as u64;
        Poll::Ready(Ok(n))
    }

    fn poll_flush(self: Pin<&mut Self>, _cx: &mut Context<'_>) -> Poll<io::Result<()>> {
        let p = self.p.lock().unwrap();
        if p.write_err {
            return Poll::Ready(Err(io::Error::new(io::ErrorKind::BrokenPipe, "sim: broken pipe")));
        }
        Poll::Ready(Ok(()))
    }

    fn poll_shutdown(self: Pin<&mut Self>, _cx: &mut Context<'_>) -> Poll<io::Result<()>> {
        self.p.lock().unwrap().server_shutdown = true;
        Poll::Ready(Ok(()))
    }
}

impl SimPeer {
    /// client sends bytes (one TCP segment as far as the server's reads are concerned)
    pub(crate) fn push(&self, data: &[u8]) {
        let mut p = self.p.lock().unwrap();
        if p.c2s_eof {
            return;
        }
        p.c2s.extend(data.iter().copied());
        if let Some(w) = p.read_waker.take() {
            w.wake();
        }
    }
    /// client half-closes: server reads EOF after draining
    pub(crate) fn close_write(&self) {
        let mut p = self.p.lock().unwrap();
        p.c2s_eof = true;
        if let Some(w) = p.read_waker.take() {
            w.wake();
        }
    }
    /// connection reset: reads fail, writes fail, pending input discarded
    pub(crate) fn reset(&self) {
        let mut p = self.p.lock().unwrap();
        p.read_err = true;
        p.write_err = true;
        p.c2s.clear();
        if let Some(w) = p.read_waker.take() {
            w.wake();
        }
        if let Some(w) = p.write_waker.take() {
            w.wake();
        }
    }
    /// half-open: only server writes fail
    pub(crate) fn break_writes(&self) {
        let mut p = self.p.lock().unwrap();
        p.write_err = true;
        if let Some(w) = p.write_waker.take() {
            w.wake();
        }
    }
    pub(crate) fn set_window(&self, n: usize) {
        let mut p = self.p.lock().unwrap();
        p.window = n;
        if n > 0 {
            if let Some(w) = p.write_waker.take() {
                w.wake();
            }
        }
    }
    pub(crate) fn grant(&self, n: usize) {
        let mut p = self.p.lock().unwrap();
        if p.window != usize::MAX {
            p.window = p.window.saturating_add(n);
        }
        if p.window > 0 {
            if let Some(w) = p.write_waker.take() {
                w.wake();
            }
        }
    }
    pub(crate) fn set_read_cap(&self, n: usize) {
        self.p.lock().unwrap().read_cap = std::cmp::max(1, n);
    }
    pub(crate) fn set_write_cap(&self, n: usize) {
        self.p.lock().unwrap().write_cap = std::cmp::max(1, n);
    }
    /// take everything the server has written so far
    pub(crate) fn take_output(&self) -> Vec<u8> {
        std::mem::take(&mut self.p.lock().unwrap().s2c)
    }
    pub(crate) fn server_dropped(&self) -> bool {
        self.p.lock().unwrap().server_dropped
    }
    pub(crate) fn writer_blocked(&self) -> bool {
        self.p.lock().unwrap().write_waker.is_some()
    }
    pub(crate) fn unread_input(&self) -> usize {
        self.p.lock().unwrap().c2s.len()
    }
    pub(crate) fn stats(&self) -> (u64, u64, u64, u64, u64) {
        let p = self.p.lock().unwrap();
        (p.n_reads, p.n_short_reads, p.n_writes, p.n_short_writes, p.n_write_blocked)
    }
}
