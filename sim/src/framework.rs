// framework.rs - what every check shares: batch runner over seeds, replay confirmation,
// minimisation, replay files, known findings, evidence files.

use crate::rt::{self, mix};
use crate::world::{Action, Trace};
use serde_json::{json, Value};
use std::collections::{BTreeMap, HashSet};
use std::sync::atomic::{AtomicBool, AtomicU64, Ordering};
use std::sync::{mpsc, Arc, Mutex};
use std::time::Instant;

#[derive(Clone, Copy, PartialEq, Eq, Debug)]
pub(crate) enum Tier {
    Quick,
    Thorough,
}

impl Tier {
    pub(crate) fn name(&self) -> &'static str {
        match self {
            Tier::Quick => "quick",
            Tier::Thorough => "thorough",
        }
    }
}

#[derive(Clone, Debug, PartialEq)]
pub(crate) struct Violation {
    pub property: String,
    pub class: String,
    /// stable signature of *what* fails (used to match known findings and to keep the
    /// violation class fixed while shrinking)
    pub sig: String,
    pub step: usize,
    pub msg: String,
}

#[derive(Clone, Debug, PartialEq)]
pub(crate) enum Status {
    Ok,
    /// the run was ended early for a reason that is not a violation of the property under test
    Abandoned(String),
    Inconclusive(String),
}

#[derive(Clone, Debug)]
pub(crate) struct Outcome {
    pub violation: Option<Violation>,
    pub status: Status,
    pub cov_keys: Vec<u64>,
    /// hashes of abstract (reference-model) states visited
    pub state_keys: Vec<u64>,
    pub counters: BTreeMap<String, u64>,
    pub digest: u64,
    pub steps: u64,
    pub vt_ms: u64,
    pub tails: Vec<Vec<String>>,
    pub helper_panics: Vec<String>,
}

impl Outcome {
    pub(crate) fn new() -> Outcome {
        Outcome {
            violation: None,
            status: Status::Ok,
            cov_keys: vec![],
            state_keys: vec![],
            counters: BTreeMap::new(),
            digest: 0,
            steps: 0,
            vt_ms: 0,
            tails: vec![],
            helper_panics: vec![],
        }
    }
    pub(crate) fn count(&mut self, k: &str, n: u64) {
        *self.counters.entry(k.to_string()).or_insert(0) += n;
    }
    pub(crate) fn harness_error(msg: String) -> Outcome {
        let mut o = Outcome::new();
        o.status = Status::Inconclusive(format!("HARNESS: {}", msg));
        o
    }
}

pub(crate) fn hash_key(parts: &[&str]) -> u64 {
    let mut d: u64 = 0xcbf2_9ce4_8422_2325;
    for p in parts {
        for &b in p.as_bytes() {
            d ^= b as u64;
            d = d.wrapping_mul(0x100_0000_01b3);
        }
        d ^= 0xff;
        d = d.wrapping_mul(0x100_0000_01b3);
    }
    d
}

pub(crate) trait Check: Send + Sync {
    fn id(&self) -> &'static str;
    fn level(&self) -> &'static str {
        "exploration"
    }
    fn runs(&self, tier: Tier) -> u64;
    fn rule(&self) -> String;
    fn assumptions(&self) -> Vec<String>;
    fn gen(&self, run_seed: u64, idx: u64, tier: Tier) -> Trace;
    fn exec(&self, trace: &Trace) -> Outcome;
    /// extra, check-specific simplification candidates tried after generic shrinking
    fn simplify(&self, _t: &Trace) -> Vec<Trace> {
        vec![]
    }
    /// directed scenarios always executed before the random search (regressions / witnesses)
    fn directed(&self) -> Vec<Trace> {
        vec![]
    }
    /// counters that must be non-zero in the thorough tier (reach probes)
    fn probes(&self) -> Vec<&'static str> {
        vec![]
    }
}

pub(crate) const DEFAULT_SEED: u64 = 20261002;

pub(crate) struct KnownFinding {
    pub property: String,
    pub sig: String,
    pub what: String,
}

pub(crate) fn load_known(path: &str) -> Vec<KnownFinding> {
    let mut out = vec![];
    if let Ok(s) = std::fs::read_to_string(path) {
        for l in s.lines() {
            let l = l.trim();
            if let Some(rest) = l.strip_prefix("known:") {
                let mut property = String::new();
                let mut sig = String::new();
                let mut what = vec![];
                for w in rest.split_whitespace() {
                    if let Some(p) = w.strip_prefix("property=") {
                        property = p.to_string();
                    } else if let Some(s) = w.strip_prefix("sig=") {
                        sig = s.to_string();
                    } else {
                        what.push(w);
                    }
                }
                if !property.is_empty() && !sig.is_empty() {
                    out.push(KnownFinding { property, sig, what: what.join(" ") });
                }
            }
        }
    }
    out
}

fn same_violation(a: &Violation, b: &Violation) -> bool {
    a.property == b.property && a.class == b.class && a.sig == b.sig
}

/// split into steps: each step ends with Settle/Advance (inclusive); Opens are kept apart (never removed)
fn steps_of(actions: &[Action]) -> Vec<Vec<Action>> {
    let mut steps = vec![];
    let mut cur = vec![];
    for a in actions {
        cur.push(a.clone());
        if matches!(a, Action::Settle | Action::Advance { .. }) {
            steps.push(std::mem::take(&mut cur));
        }
    }
    if !cur.is_empty() {
        steps.push(cur);
    }
    steps
}

fn strip_step(step: &[Action]) -> Vec<Action> {
    // removing a step keeps its Opens (connection indices must stay stable)
    step.iter().filter(|a| matches!(a, Action::Open { .. } | Action::OpenSecure { .. })).cloned().collect()
}

pub(crate) fn shrink(check: &dyn Check, trace: &Trace, v: &Violation, budget: usize) -> (Trace, usize) {
    let mut best = trace.clone();
    let mut used = 0usize;
    let still_fails = |t: &Trace, used: &mut usize| -> bool {
        *used += 1;
        match check.exec(t).violation {
            Some(ref v2) => same_violation(v, v2),
            None => false,
        }
    };
    // truncate after the violating step first (cheap, big win)
    {
        let steps = steps_of(&best.actions);
        if v.step + 1 < steps.len() {
            let mut t = best.clone();
            t.actions = steps[..=v.step].concat();
            if still_fails(&t, &mut used) {
                best = t;
            }
        }
    }
    // phase 1: ddmin over whole steps
    let mut chunk = std::cmp::max(1, steps_of(&best.actions).len() / 2);
    while chunk >= 1 && used < budget {
        let steps = steps_of(&best.actions);
        let mut i = 0;
        let mut progressed = false;
        while i < steps.len() && used < budget {
            let end = std::cmp::min(steps.len(), i + chunk);
            // never remove the last step (it carries the violation) unless chunk==1 handled by test
            let mut cand_steps: Vec<Vec<Action>> = vec![];
            let mut removed_any = false;
            for (j, s) in steps.iter().enumerate() {
                if j >= i && j < end {
                    let st = strip_step(s);
                    if st.len() != s.len() {
                        removed_any = true;
                    }
                    if !st.is_empty() {
                        cand_steps.push(st);
                    }
                } else {
                    cand_steps.push(s.clone());
                }
            }
            if removed_any {
                let mut t = best.clone();
                t.actions = cand_steps.concat();
                if still_fails(&t, &mut used) {
                    best = t;
                    progressed = true;
                    break; // restart with new step list
                }
            }
            i += chunk;
        }
        if !progressed {
            if chunk == 1 {
                break;
            }
            chunk /= 2;
        }
    }
    // phase 2: single non-structural actions
    let mut i = 0;
    while i < best.actions.len() && used < budget {
        let a = &best.actions[i];
        let removable = !matches!(a, Action::Open { .. } | Action::OpenSecure { .. } | Action::Settle | Action::Advance { .. });
        if removable {
            let mut t = best.clone();
            t.actions.remove(i);
            if still_fails(&t, &mut used) {
                best = t;
                continue;
            }
        }
        i += 1;
    }
    // phase 3: check-specific simplifications
    let mut again = true;
    while again && used < budget {
        again = false;
        for cand in check.simplify(&best) {
            if used >= budget {
                break;
            }
            if still_fails(&cand, &mut used) {
                best = cand;
                again = true;
                break;
            }
        }
    }
    (best, used)
}

pub(crate) fn abbreviate(t: &Trace, max_actions: usize) -> Value {
    let acts: Vec<String> = t
        .actions
        .iter()
        .take(max_actions)
        .map(|a| {
            let s = match a {
                Action::Send { c, d } => format!("{}> {}", c, d),
                Action::Settle => "|".to_string(),
                other => serde_json::to_string(other).unwrap_or_default(),
            };
            if s.len() > 160 {
                format!("{}...", &s[..s.char_indices().take_while(|(i, _)| *i < 157).last().map(|(i, c)| i + c.len_utf8()).unwrap_or(0)])
            } else {
                s
            }
        })
        .collect();
    json!({"run_seed": t.run_seed, "n_actions": t.actions.len(), "params": t.params, "actions": acts})
}

pub(crate) struct BatchResult {
    pub evaluations: u64,
    pub cov: HashSet<u64>,
    pub states: HashSet<u64>,
    pub counters: BTreeMap<String, u64>,
    pub steps: u64,
    pub vt_ms: u64,
    pub abandoned: BTreeMap<String, u64>,
    pub inconclusive: BTreeMap<String, u64>,
    pub helper_panics: u64,
    pub helper_panic_samples: Vec<String>,
    pub samples: Vec<Value>,
    pub violations: Vec<(u64, Trace, Violation)>, // sorted by idx
    pub harness_errors: Vec<String>,
    pub wall_capped: bool,
}

pub(crate) fn run_batch(check: Arc<dyn Check>, seed: u64, tier: Tier, runs: u64, jobs: usize, wall_cap_s: u64, known: &[KnownFinding]) -> BatchResult {
    let next = Arc::new(AtomicU64::new(0));
    let min_viol = Arc::new(AtomicU64::new(u64::MAX));
    let capped = Arc::new(AtomicBool::new(false));
    let (tx, rx) = mpsc::channel::<(u64, Trace, Outcome)>();
    let t0 = Instant::now();
    let known_sigs: Arc<Vec<(String, String)>> = Arc::new(known.iter().map(|k| (k.property.clone(), k.sig.clone())).collect());
    let mut handles = vec![];
    for _ in 0..jobs {
        let check = check.clone();
        let next = next.clone();
        let min_viol = min_viol.clone();
        let capped = capped.clone();
        let tx = tx.clone();
        let known_sigs = known_sigs.clone();
        handles.push(std::thread::spawn(move || loop {
            let idx = next.fetch_add(1, Ordering::SeqCst);
            if idx >= runs || idx > min_viol.load(Ordering::SeqCst) {
                break;
            }
            if t0.elapsed().as_secs() > wall_cap_s {
                capped.store(true, Ordering::SeqCst);
                break;
            }
            let run_seed = mix(mix(seed, crate::framework::hash_key(&[check.id()])), idx);
            let chk = check.clone();
            let res = std::panic::catch_unwind(std::panic::AssertUnwindSafe(move || {
                let mut trace = chk.gen(run_seed, idx, tier);
                trace.seed = seed;
                let out = chk.exec(&trace);
                (trace, out)
            }));
            let (trace, out) = match res {
                Ok(x) => x,
                Err(_) => {
                    let t = Trace { check: check.id().into(), seed, run_seed, config: crate::world::SimConfig::default(), params: Default::default(), actions: vec![] };
                    (t, Outcome::harness_error(format!("generator or oracle panicked (run index {}, run_seed {})", idx, run_seed)))
                }
            };
            if let Some(v) = &out.violation {
                let is_known = known_sigs.iter().any(|(p, s)| *p == v.property && *s == v.sig);
                if !is_known {
                    min_viol.fetch_min(idx, Ordering::SeqCst);
                }
            }
            if tx.send((idx, trace, out)).is_err() {
                break;
            }
        }));
    }
    drop(tx);
    let mut res = BatchResult {
        evaluations: 0,
        cov: HashSet::new(),
        states: HashSet::new(),
        counters: BTreeMap::new(),
        steps: 0,
        vt_ms: 0,
        abandoned: BTreeMap::new(),
        inconclusive: BTreeMap::new(),
        helper_panics: 0,
        helper_panic_samples: vec![],
        samples: vec![],
        violations: vec![],
        harness_errors: vec![],
        wall_capped: false,
    };
    let mut sample_slots: BTreeMap<u64, Value> = BTreeMap::new();
    for (idx, trace, out) in rx {
        res.evaluations += 1;
        for k in &out.cov_keys {
            res.cov.insert(*k);
        }
        for k in &out.state_keys {
            res.states.insert(*k);
        }
        for (k, n) in &out.counters {
            *res.counters.entry(k.clone()).or_insert(0) += n;
        }
        res.steps += out.steps;
        res.vt_ms += out.vt_ms;
        res.helper_panics += out.helper_panics.len() as u64;
        for p in &out.helper_panics {
            if res.helper_panic_samples.len() < 3 && !res.helper_panic_samples.contains(p) {
                res.helper_panic_samples.push(p.clone());
            }
        }
        match &out.status {
            Status::Ok => {}
            Status::Abandoned(r) => *res.abandoned.entry(r.clone()).or_insert(0) += 1,
            Status::Inconclusive(r) => {
                if r.starts_with("HARNESS:") {
                    res.harness_errors.push(format!("run {}: {}", idx, r));
                }
                *res.inconclusive.entry(r.clone()).or_insert(0) += 1
            }
        }
        if idx < 3 {
            sample_slots.insert(idx, abbreviate(&trace, 60));
        }
        if let Some(v) = out.violation {
            res.violations.push((idx, trace, v));
        }
    }
    for h in handles {
        let _ = h.join();
    }
    res.samples = sample_slots.into_values().collect();
    res.violations.sort_by_key(|(i, _, _)| *i);
    res.wall_capped = capped.load(Ordering::SeqCst);
    res
}

pub(crate) struct CheckReport {
    pub exit: i32,
}

fn verif_dir() -> String {
    std::env::var("VERIF_DIR").unwrap_or_else(|_| "/verif".to_string())
}

pub(crate) fn write_replay(check_id: &str, trace: &Trace, v: &Violation, orig_actions: usize, tails: &[Vec<String>]) -> String {
    let dir = format!("{}/replays", verif_dir());
    let _ = std::fs::create_dir_all(&dir);
    let path = format!("{}/{}-{}-{:x}.json", dir, check_id, trace.seed, trace.run_seed);
    let val = json!({
        "format": "sircsim-replay-1",
        "violation": {"property": v.property, "class": v.class, "sig": v.sig, "step": v.step, "message": v.msg},
        "original_actions": orig_actions,
        "minimised_actions": trace.actions.len(),
        "tails": tails,
        "trace": trace,
    });
    let _ = std::fs::write(&path, serde_json::to_string_pretty(&val).unwrap());
    path
}

pub(crate) fn read_replay(path: &str) -> Result<(Trace, Option<Violation>), String> {
    let s = std::fs::read_to_string(path).map_err(|e| format!("{}: {}", path, e))?;
    let v: Value = serde_json::from_str(&s).map_err(|e| format!("{}: {}", path, e))?;
    let t: Trace = serde_json::from_value(v.get("trace").cloned().unwrap_or(v.clone())).map_err(|e| format!("{}: {}", path, e))?;
    let viol = v.get("violation").map(|x| Violation {
        property: x["property"].as_str().unwrap_or("").to_string(),
        class: x["class"].as_str().unwrap_or("").to_string(),
        sig: x["sig"].as_str().unwrap_or("").to_string(),
        step: x["step"].as_u64().unwrap_or(0) as usize,
        msg: x["message"].as_str().unwrap_or("").to_string(),
    });
    Ok((t, viol))
}

pub(crate) fn components() -> Value {
    json!({
        "real": ["command.rs (tokeniser, parser, validation)", "reply.rs", "utils.rs (codec, validators, match_wildcard, normalize_sourcemask, argon2)",
                 "config.rs", "state/* (user_state_process, register_conn_state, process/process_internal, all handlers, ConnState, VolatileState, ping/pong tasks)",
                 "tokio current_thread scheduler, tokio::sync (RwLock, mpsc, oneshot), tokio::time on the paused clock, tokio_util Framed+LinesCodec"],
        "stub": ["kernel TCP -> SimStream/SimPeer", "TcpListener/accept loop of run_server and main() -> harness calls verif_user_state_process per simulated accept",
                 "OS wall clock -> EPOCH0 + virtual time", "OS entropy -> seeded", "blocking pool -> inline + gate", "TLS acceptors, DNS resolver, tracing subscriber -> not built / not installed"]
    })
}

/// Run one check tier end to end; prints VIOLATION / KNOWN-FINDING lines; writes evidence.
pub(crate) fn run_check(check: Arc<dyn Check>, tier: Tier, seed: u64, jobs: usize, runs_override: Option<u64>) -> i32 {
    let t0 = Instant::now();
    let id = check.id();
    let known_all = load_known(&format!("{}/known_findings.txt", verif_dir()));
    let known: Vec<KnownFinding> = known_all.into_iter().filter(|k| k.property == id).collect();
    let runs = runs_override.unwrap_or_else(|| check.runs(tier));
    let wall_cap = match tier {
        Tier::Quick => 600,
        Tier::Thorough => 3000,
    };
    let mut known_hit: BTreeMap<String, u64> = BTreeMap::new();
    let mut violations_found: Vec<(Trace, Violation)> = vec![];
    let mut harness_errors: Vec<String> = vec![];

    // directed scenarios first
    let directed = check.directed();
    let n_directed = directed.len() as u64;
    let mut directed_cov: HashSet<u64> = HashSet::new();
    for t in directed {
        let out = check.exec(&t);
        for k in &out.cov_keys {
            directed_cov.insert(*k);
        }
        if let Status::Inconclusive(r) = &out.status {
            if r.starts_with("HARNESS:") {
                harness_errors.push(format!("directed {}: {}", t.params.get("name").cloned().unwrap_or_default(), r));
            }
        }
        if let Some(v) = out.violation {
            if let Some(k) = known.iter().find(|k| k.sig == v.sig) {
                *known_hit.entry(k.sig.clone()).or_insert(0) += 1;
            } else if violations_found.is_empty() {
                violations_found.push((t.clone(), v));
            }
        }
    }

    let mut res = run_batch(check.clone(), seed, tier, runs, jobs, wall_cap, &known);
    for k in directed_cov {
        res.cov.insert(k);
    }
    harness_errors.extend(res.harness_errors.iter().cloned());
    for (_, t, v) in res.violations.iter() {
        if let Some(k) = known.iter().find(|k| k.sig == v.sig) {
            *known_hit.entry(k.sig.clone()).or_insert(0) += 1;
        } else if violations_found.is_empty() {
            violations_found.push((t.clone(), v.clone()));
        }
    }

    let mut exit = 0;
    let mut replay_path = None;
    let mut shrink_info = json!(null);
    if let Some((trace, v)) = violations_found.first() {
        // 1. confirm determinism of the failure
        let again = check.exec(trace);
        match again.violation {
            Some(ref v2) if same_violation(v, v2) && v2.step == v.step => {
                let (min, used) = shrink(check.as_ref(), trace, v, 2500);
                let fin = check.exec(&min);
                let (min, vfin, tails) = match fin.violation {
                    Some(vf) if same_violation(v, &vf) => (min, vf, fin.tails),
                    _ => (trace.clone(), v.clone(), again.tails),
                };
                let p = write_replay(id, &min, &vfin, trace.actions.len(), &tails);
                println!("violation: property={} class={} sig={} step={} :: {}", vfin.property, vfin.class, vfin.sig, vfin.step, vfin.msg);
                println!("VIOLATION property={} replay={}", id, p);
                shrink_info = json!({"original_actions": trace.actions.len(), "minimised_actions": min.actions.len(), "shrink_execs": used});
                replay_path = Some(p);
                exit = 1;
            }
            other => {
                harness_errors.push(format!(
                    "non-reproducible violation (first: {:?}; second: {:?}) run_seed={}",
                    v,
                    other,
                    trace.run_seed
                ));
            }
        }
    }
    for k in &known {
        if known_hit.contains_key(&k.sig) {
            println!("KNOWN-FINDING: property={} {} (sig={}, hit {} times)", k.property, k.what, k.sig, known_hit[&k.sig]);
        }
    }
    // reach probes (thorough only)
    let mut probe_zero = vec![];
    if tier == Tier::Thorough {
        for p in check.probes() {
            if res.counters.get(p).copied().unwrap_or(0) == 0 {
                probe_zero.push(p.to_string());
            }
        }
    }
    if !harness_errors.is_empty() && exit == 0 {
        exit = 2;
    }
    let wall = t0.elapsed().as_secs_f64();
    let evals = res.evaluations + n_directed;
    let ev = json!({
        "property_id": id,
        "tier": tier.name(),
        "seed": seed,
        "level": check.level(),
        "coverage": {
            "evaluations": evals,
            "distinct_nontrivial": res.cov.len(),
            "rule": check.rule(),
            "samples": res.samples,
            "directed_scenarios": n_directed,
            "states": res.states.len(),
            "states_measure": "distinct abstract states of the reference model (users with modes/away/channels, channels with members+ranks/flags/key/limit/mask lists, connection registration progress) visited at step boundaries; 0 for checks without a model",
            "steps": res.steps,
            "virtual_seconds_simulated": res.vt_ms / 1000,
            "runs_per_hour": if wall > 0.0 { (evals as f64 / wall * 3600.0) as u64 } else { 0 },
            "seeds_per_hour": if wall > 0.0 { (evals as f64 / wall * 3600.0) as u64 } else { 0 },
            "counters": res.counters,
            "abandoned_runs": res.abandoned,
            "inconclusive_runs": res.inconclusive,
            "helper_task_panics": res.helper_panics,
            "helper_task_panic_samples": res.helper_panic_samples,
            "known_findings_hit": known_hit,
            "probes_at_zero": probe_zero,
            "wall_cap_hit": res.wall_capped,
            "jobs": jobs,
            "components": components(),
            "shrink": shrink_info,
            "replay": replay_path,
            "harness_errors": harness_errors,
            "exhaustive": false
        },
        "assumptions": check.assumptions(),
        "wall_s": wall,
        "violations": if exit == 1 { 1 } else { 0 }
    });
    let evdir = format!("{}/evidence", verif_dir());
    let _ = std::fs::create_dir_all(&evdir);
    let evpath = format!("{}/{}.json", evdir, id);
    if let Err(e) = std::fs::write(&evpath, serde_json::to_string_pretty(&ev).unwrap()) {
        eprintln!("cannot write evidence {}: {}", evpath, e);
        return 2;
    }
    println!(
        "{} {} seed={} runs={} distinct={} steps={} vt={}s abandoned={} wall={:.1}s exit={}",
        id,
        tier.name(),
        seed,
        evals,
        res.cov.len(),
        res.steps,
        res.vt_ms / 1000,
        res.abandoned.values().sum::<u64>(),
        wall,
        exit
    );
    if !res.abandoned.is_empty() {
        println!("abandoned: {:?}", res.abandoned);
    }
    if !res.inconclusive.is_empty() {
        println!("inconclusive: {:?}", res.inconclusive);
    }
    for e in &harness_errors {
        println!("HARNESS-ERROR: {}", e);
    }
    exit
}

pub(crate) fn replay_file(check: Arc<dyn Check>, path: &str) -> i32 {
    match read_replay(path) {
        Ok((t, expected)) => {
            let out = check.exec(&t);
            match out.violation {
                Some(v) => {
                    println!("violation: property={} class={} sig={} step={} :: {}", v.property, v.class, v.sig, v.step, v.msg);
                    for (i, tl) in out.tails.iter().enumerate() {
                        for l in tl {
                            println!("  conn{} <- {}", i, l);
                        }
                    }
                    if let Some(e) = expected {
                        if !same_violation(&e, &v) {
                            println!("note: differs from recorded violation sig={} class={}", e.sig, e.class);
                        }
                    }
                    println!("VIOLATION property={} replay={}", t.check, path);
                    1
                }
                None => {
                    println!("replay of {}: no violation (status {:?})", path, out.status);
                    0
                }
            }
        }
        Err(e) => {
            eprintln!("{}", e);
            2
        }
    }
}
