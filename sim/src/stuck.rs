// stuck.rs - directed fault scenario shared by C02 and C06: a session is ended from outside (KILL) while its
// connection task cannot run to completion (its peer does not read: the writer is blocked), somebody else
// claims the nickname in that window, and only then does the stuck connection's transport end.
// Model-free oracle: whatever the server decides in the window, at the end exactly one connection owns the
// nickname, it is the one the server accepted, and the late clean-up of the dead session touched nobody else.

use crate::framework::*;
use crate::irc;
use crate::rt::{self, Rng};
use crate::world::*;
use std::collections::HashMap;

const O: usize = 0; // operator and observer
const V: usize = 1; // victim "vic"
const B: usize = 2; // bystander "byst"
const T_NEW: usize = 3; // newcomer (when the taker is a fresh connection)

fn say(a: &mut Vec<Action>, c: usize, l: &str) {
    a.push(Action::line(c, l));
    a.push(Action::Settle);
}

pub(crate) fn gen(check: &str, run_seed: u64) -> Trace {
    let mut r = Rng::new(run_seed ^ 0x57AC);
    let mut cfg = SimConfig::default();
    cfg.operators.push(OperCfg { name: "root".into(), password: "rootpw".into(), mask: None });
    if r.chance(1, 4) {
        cfg.max_joins = Some(2);
    }
    let mut a: Vec<Action> = vec![];
    for (i, n) in ["oper", "vic", "byst"].iter().enumerate() {
        a.push(Action::Open { ip: format!("10.0.0.{}", i + 1) });
        say(&mut a, i, &format!("NICK {}", n));
        say(&mut a, i, &format!("USER u{} 0 * :Real {}", i, n));
    }
    say(&mut a, O, "OPER root rootpw");
    let chan = r.chance(2, 3);
    if chan {
        say(&mut a, V, "JOIN #s");
        say(&mut a, B, "JOIN #s");
        if r.chance(1, 2) {
            say(&mut a, V, "MODE #s +v byst");
        }
    }
    if r.chance(1, 3) {
        say(&mut a, V, "MODE vic +i");
    }
    // the victim's peer stops reading; traffic for it blocks its connection task in a write
    // (in a fifth of the runs the peer keeps reading: the same history without the fault)
    let window = [0usize, 0, 0, 10, 100][r.below(5)];
    if !r.chance(1, 5) {
        a.push(Action::Window { c: V, n: window });
    }
    let fill = r.range(2, 8);
    for i in 0..fill {
        let target = if chan && r.chance(1, 2) { "#s" } else { "vic" };
        say(&mut a, B, &format!("PRIVMSG {} :filler {} {}", target, i, "x".repeat(r.range(10, 300))));
    }
    a.push(Action::Mark { m: "kill".into() });
    let how_end_first = r.below(6);
    match how_end_first {
        0 => say(&mut a, O, "KILL vic"),
        _ => say(&mut a, O, "KILL vic :stuck peer"),
    }
    // somebody claims the nickname while the killed session's task is still stuck
    let taker_new = r.chance(2, 3);
    let taker = if taker_new { T_NEW } else { B };
    a.push(Action::Mark { m: "claim".into() });
    if taker_new {
        a.push(Action::Open { ip: "10.0.0.9".into() });
        say(&mut a, T_NEW, "NICK vic");
        say(&mut a, T_NEW, "USER newu 0 * :New Owner");
    } else {
        say(&mut a, B, "NICK vic");
    }
    if chan && r.chance(1, 2) {
        say(&mut a, taker, "JOIN #s");
    }
    if r.chance(1, 2) {
        say(&mut a, O, "ISON vic byst");
    }
    // the stuck connection's transport ends
    a.push(Action::Mark { m: "victim_end".into() });
    // (without an effective KILL the session ends only with its transport: no draining variant then)
    let end_kind = if how_end_first == 0 { [0usize, 1, 3][r.below(3)] } else { r.below(4) };
    match end_kind {
        0 => a.push(Action::Reset { c: V }),
        1 => {
            a.push(Action::CloseWrite { c: V });
            a.push(Action::BreakWrites { c: V });
        }
        2 => a.push(Action::Window { c: V, n: usize::MAX }),
        _ => {
            a.push(Action::BreakWrites { c: V });
            a.push(Action::Settle);
            a.push(Action::Reset { c: V });
        }
    }
    a.push(Action::Settle);
    a.push(Action::Settle);
    // a refused claimer tries again: the nickname of an ended session is available at once
    a.push(Action::Mark { m: "retry".into() });
    say(&mut a, taker, "NICK vic");
    if taker_new {
        // (a newcomer refused at completion has to complete: USER was already given, NICK completes it)
    }
    if chan {
        say(&mut a, taker, "JOIN #s");
    }
    a.push(Action::Mark { m: "audit".into() });
    say(&mut a, O, "ISON vic byst oper");
    say(&mut a, O, "WHOIS vic");
    say(&mut a, O, "LUSERS");
    say(&mut a, O, "NAMES #s");
    say(&mut a, O, "PRIVMSG vic :audit-message");
    say(&mut a, taker, "PING taker-alive");
    say(&mut a, B, "PING byst-alive");
    let mut params = HashMap::new();
    params.insert("scenario".to_string(), "stuck_kill".to_string());
    params.insert("taker".to_string(), taker.to_string());
    params.insert("taker_new".to_string(), (taker_new as u8).to_string());
    params.insert("chan".to_string(), (chan as u8).to_string());
    Trace { check: check.into(), seed: 0, run_seed, config: cfg, params, actions: a }
}

pub(crate) fn exec(trace: &Trace, prop: &'static str) -> Outcome {
    let t = trace.clone();
    match rt::run_sim_timeout(trace.run_seed, 60, move || async move { exec_inner(t, prop).await }) {
        Ok(o) => o,
        Err(e) if e == "HANG" => {
            let mut o = Outcome::new();
            o.violation = Some(Violation { property: prop.into(), class: "stuck_session".into(), sig: "hang".into(), step: usize::MAX, msg: "simulated run did not finish within 60 s wall".into() });
            o
        }
        Err(e) => Outcome::harness_error(e),
    }
}

async fn exec_inner(t: Trace, prop: &'static str) -> Outcome {
    let mut out = Outcome::new();
    let mut w = World::new(&t.config).await;
    let taker: usize = t.params.get("taker").and_then(|s| s.parse().ok()).unwrap_or(B);
    let taker_new = t.params.get("taker_new").map_or(false, |s| s == "1");
    let mk = |sig: &str, step: usize, msg: String| Violation { property: prop.into(), class: "stuck_session".into(), sig: sig.into(), step, msg };
    let mut viol: Option<Violation> = None;
    let mut phase = "setup".to_string();
    let mut step = 0usize;
    // what the taker was told about the nickname
    let mut taker_owns = false;
    let mut taker_refused_in_window = false;
    let mut taker_registered = !taker_new;
    let mut victim_ended = false;
    let mut last_sent: Vec<(usize, String)> = vec![];
    // audit observations
    let mut ison: Option<Vec<String>> = None;
    let mut whois_user: Option<String> = None;
    let mut whois_missing = false;
    let mut lusers_users: Option<usize> = None;
    let mut names_s: Option<Vec<String>> = None;
    let mut audit_msg_on: Vec<usize> = vec![];
    let mut taker_pong = false;
    let mut byst_pong = false;
    let mut taker_in_chan = false;
    let mut skip_next_settle_lines = false;
    let mut i = 0usize;
    while i < t.actions.len() {
        let a = &t.actions[i];
        i += 1;
        match a {
            Action::Mark { m } => {
                phase = m.clone();
                out.count(&format!("phase.{}", m), 1);
                if m == "retry" && taker_owns {
                    // nothing to retry: skip the NICK line (and its barrier) that follows
                    if let Some(Action::Send { .. }) = t.actions.get(i) {
                        i += 1;
                        if let Some(Action::Settle) = t.actions.get(i) {
                            i += 1;
                        }
                    }
                    out.count("claim.accepted_in_window", 1);
                } else if m == "retry" {
                    out.count("claim.refused_in_window", 1);
                }
            }
            Action::Send { c, d } => {
                let s = String::from_utf8_lossy(&unesc(d)).trim_end().to_string();
                last_sent.push((*c, s));
                w.apply(a).await;
            }
            Action::Settle => {
                w.apply(a).await;
                let obs = w.observe();
                step += 1;
                let _ = skip_next_settle_lines;
                skip_next_settle_lines = false;
                // handler panics
                for (tid, msg) in rt::take_panic_log() {
                    if tid.and_then(|id| w.conn_of_task(id)).is_some() {
                        let loc = msg.rsplit(" @ ").next().unwrap_or("?").replace(env!("VERIF_REPO_PATH"), "");
                        viol = Some(mk(&format!("panic@{}", loc.trim_start_matches('/')), step, format!("connection handler panicked in phase {}: {}", phase, msg)));
                    } else {
                        out.helper_panics.push(msg);
                    }
                }
                if obs.get(V).map_or(false, |o| o.eof) {
                    victim_ended = true;
                }
                // the taker's view
                if let Some(o) = obs.get(taker) {
                    for l in &o.lines {
                        if let Some(p) = irc::parse(l) {
                            if p.cmd == "001" && taker_new {
                                taker_registered = true;
                                taker_owns = true;
                            } else if p.cmd == "NICK" && p.params.last().map(|s| s.as_str()) == Some("vic") && !taker_new {
                                taker_owns = true;
                            } else if p.cmd == "433" {
                                if phase == "claim" {
                                    taker_refused_in_window = true;
                                }
                            } else if p.cmd == "PONG" && p.params.last().map(|s| s.as_str()) == Some("taker-alive") {
                                taker_pong = true;
                            } else if p.cmd == "JOIN" && p.nick_of_source() == Some("vic") {
                                taker_in_chan = true;
                            }
                        }
                    }
                    if o.eof && !(taker_new && !taker_registered) && viol.is_none() && taker != V {
                        viol = Some(mk("taker_closed", step, format!("the connection that claimed the nickname was closed in phase {}", phase)));
                    }
                }
                if let Some(o) = obs.get(B) {
                    for l in &o.lines {
                        if let Some(p) = irc::parse(l) {
                            if p.cmd == "PONG" && p.params.last().map(|s| s.as_str()) == Some("byst-alive") {
                                byst_pong = true;
                            }
                        }
                    }
                }
                for (ci, o) in obs.iter().enumerate() {
                    for l in &o.lines {
                        if let Some(p) = irc::parse(l) {
                            if p.cmd == "PRIVMSG" && p.params.last().map(|s| s.as_str()) == Some("audit-message") {
                                audit_msg_on.push(ci);
                            }
                        }
                    }
                }
                if phase == "audit" {
                    if let Some(o) = obs.get(O) {
                        for l in &o.lines {
                            if let Some(p) = irc::parse(l) {
                                match p.cmd.as_str() {
                                    "303" => ison = Some(p.params.last().cloned().unwrap_or_default().split_whitespace().map(|s| s.to_string()).collect()),
                                    "311" if p.p(1) == "vic" => whois_user = Some(p.p(2).to_string()),
                                    "401" if p.p(1) == "vic" => whois_missing = true,
                                    "251" => {
                                        let txt = p.params.last().cloned().unwrap_or_default();
                                        let ws: Vec<&str> = txt.split(' ').collect();
                                        let u: usize = ws.get(2).and_then(|s| s.parse().ok()).unwrap_or(0);
                                        let inv: usize = ws.get(5).and_then(|s| s.parse().ok()).unwrap_or(0);
                                        lusers_users = Some(u + inv);
                                    }
                                    "353" if p.p(2) == "#s" => {
                                        let v = names_s.get_or_insert_with(Vec::new);
                                        for n in p.params.last().cloned().unwrap_or_default().split_whitespace() {
                                            v.push(n.trim_start_matches(|c: char| "~&@%+".contains(c)).to_string());
                                        }
                                    }
                                    _ => {}
                                }
                            }
                        }
                    }
                }
                if viol.is_some() {
                    break;
                }
            }
            other => {
                w.apply(other).await;
            }
        }
    }
    if viol.is_none() && (phase != "audit" || ison.is_none()) {
        // the scenario did not reach its audit (a shortened replay): nothing to conclude
        out.count("stuck_kill.no_audit", 1);
    } else if viol.is_none() {
        let want_user = if taker_new { "~newu" } else { "~u2" };
        let _ = victim_ended;
        if !taker_owns {
            viol = Some(mk(
                "nick_not_available",
                step,
                format!("the nickname of the ended session could not be taken: refused in the window={} and refused again after the session's end", taker_refused_in_window),
            ));
        } else if !ison.as_ref().map_or(false, |v| v.iter().any(|n| n == "vic")) {
            viol = Some(mk("owner_removed", step, format!("the connection the server accepted as 'vic' is no longer registered after the dead session's clean-up (ISON: {:?})", ison)));
        } else if whois_missing || whois_user.as_deref() != Some(want_user) {
            viol = Some(mk("owner_identity", step, format!("WHOIS vic shows user {:?} (missing={}), the accepted owner is {}", whois_user, whois_missing, want_user)));
        } else if audit_msg_on != vec![taker] {
            viol = Some(mk("message_to_owner", step, format!("a message to 'vic' was delivered on connections {:?}, the owner is connection {}", audit_msg_on, taker)));
        } else if !taker_pong || !byst_pong {
            viol = Some(mk("unresponsive", step, format!("owner answered PING: {}, bystander answered PING: {}", taker_pong, byst_pong)));
        } else if lusers_users != Some(if taker_new { 3 } else { 2 }) {
            viol = Some(mk("lusers", step, format!("LUSERS counts {:?} users, {} connections are registered", lusers_users, if taker_new { 3 } else { 2 })));
        } else if (taker_in_chan || (!taker_new && t.params.get("chan").map_or(false, |s| s == "1"))) && !names_s.as_ref().map_or(false, |v| v.iter().any(|n| n == "vic")) {
            viol = Some(mk("owner_membership", step, format!("the owner joined #s but NAMES #s shows {:?}", names_s)));
        } else {
            out.count("stuck_kill.ok", 1);
        }
    }
    out.cov_keys.push(hash_key(&["stuck_kill", &taker_new.to_string(), &taker_refused_in_window.to_string(), &taker_in_chan.to_string(), t.params.get("chan").map(|s| s.as_str()).unwrap_or("")]));
    out.tails = w.conns.iter().map(|c| c.all_lines.iter().rev().take(12).rev().cloned().collect()).collect();
    for (k, v) in w.net_counters() {
        if k != "net.reads" && k != "net.writes" {
            out.count(k, v);
        }
    }
    out.violation = viol;
    out.digest = w.digest;
    out.steps = w.steps;
    out.vt_ms = rt::virtual_elapsed_ms();
    out
}

// ---------------------------------------------------------------------------------------------------------
// Second directed scenario (C18's liveness clause): a peer that does not read asks for a reply of hundreds of
// lines in one command; everybody else - readers and writers of the state - must still be answered.

pub(crate) fn gen_big_reply(check: &str, run_seed: u64) -> Trace {
    let mut r = Rng::new(run_seed ^ 0xB16);
    let mut cfg = SimConfig::default();
    cfg.operators.push(OperCfg { name: "root".into(), password: "rootpw".into(), mask: None });
    let mut a: Vec<Action> = vec![];
    for (i, n) in ["oper", "vic", "byst"].iter().enumerate() {
        a.push(Action::Open { ip: format!("10.0.0.{}", i + 1) });
        say(&mut a, i, &format!("NICK {}", n));
        say(&mut a, i, &format!("USER u{} 0 * :Real {}", i, n));
    }
    say(&mut a, B, "JOIN #s");
    say(&mut a, V, "JOIN #s");
    let window = [0usize, 0, 5, 50][r.below(4)];
    a.push(Action::Window { c: V, n: window });
    a.push(Action::Mark { m: "big".into() });
    let n = r.range(120, 400);
    let item = ["zz", "#q", "byst", "vic"][r.below(4)];
    let list = std::iter::repeat(item).take(std::cmp::min(n, 1800 / (item.len() + 1))).collect::<Vec<_>>().join(",");
    let big = match r.below(4) {
        0 => format!("WHOIS {}", list),
        1 => format!("NAMES {}", list),
        2 => format!("PRIVMSG {} :to many", list),
        _ => format!("WHO {}", "zz"),
    };
    // one or several such commands in a row
    for _ in 0..r.range(1, 3) {
        say(&mut a, V, &big);
    }
    a.push(Action::Mark { m: "others".into() });
    say(&mut a, B, "JOIN #t");
    say(&mut a, O, "PING alive-oper");
    say(&mut a, B, "PING alive-byst");
    say(&mut a, O, "NICK opernew");
    say(&mut a, B, "PRIVMSG opernew :hello oper");
    a.push(Action::Mark { m: "victim_end".into() });
    a.push(Action::Reset { c: V });
    a.push(Action::Settle);
    say(&mut a, O, "PING after-end");
    let mut params = HashMap::new();
    params.insert("scenario".to_string(), "slow_big_reply".to_string());
    Trace { check: check.into(), seed: 0, run_seed, config: cfg, params, actions: a }
}

pub(crate) fn exec_big_reply(trace: &Trace, prop: &'static str) -> Outcome {
    let t = trace.clone();
    match rt::run_sim_timeout(trace.run_seed, 60, move || async move { exec_big_inner(t, prop).await }) {
        Ok(o) => o,
        Err(e) if e == "HANG" => {
            let mut o = Outcome::new();
            o.violation = Some(Violation { property: prop.into(), class: "liveness".into(), sig: "hang".into(), step: usize::MAX, msg: "simulated run did not finish within 60 s wall".into() });
            o
        }
        Err(e) => Outcome::harness_error(e),
    }
}

async fn exec_big_inner(t: Trace, prop: &'static str) -> Outcome {
    let mut out = Outcome::new();
    let mut w = World::new(&t.config).await;
    let mk = |sig: &str, step: usize, msg: String| Violation { property: prop.into(), class: "liveness".into(), sig: sig.into(), step, msg };
    let mut viol: Option<Violation> = None;
    let mut phase = "setup".to_string();
    let mut step = 0usize;
    let mut reached_others = false;
    // (connection, what it sent, what must come back) - checked at the barrier that follows the command
    let mut pending: Option<(usize, String)> = None;
    for a in &t.actions {
        match a {
            Action::Mark { m } => {
                phase = m.clone();
                if m == "others" {
                    reached_others = true;
                }
            }
            Action::Send { c, d } => {
                let s = String::from_utf8_lossy(&unesc(d)).trim_end().to_string();
                if phase == "others" || phase == "victim_end" {
                    pending = Some((*c, s));
                }
                w.apply(a).await;
            }
            Action::Settle => {
                w.apply(a).await;
                let obs = w.observe();
                step += 1;
                for (tid, msg) in rt::take_panic_log() {
                    if tid.and_then(|id| w.conn_of_task(id)).is_some() {
                        let loc = msg.rsplit(" @ ").next().unwrap_or("?").replace(env!("VERIF_REPO_PATH"), "");
                        viol = Some(mk(&format!("panic@{}", loc.trim_start_matches('/')), step, format!("connection handler panicked in phase {}: {}", phase, msg)));
                    } else {
                        out.helper_panics.push(msg);
                    }
                }
                if let Some((c, sent)) = pending.take() {
                    let lines: Vec<String> = obs.get(c).map(|o| o.lines.clone()).unwrap_or_default();
                    // served = the server reacted at all (whatever it said: a shortened replay may have lost the registration);
                    // a server that is stuck behind the slow peer says nothing
                    let answered = !lines.is_empty()
                        || (sent.starts_with("PRIVMSG opernew") && obs.get(O).map_or(false, |o| o.lines.iter().any(|l| irc::parse(l).map_or(false, |p| p.cmd == "PRIVMSG"))));
                    if !answered && viol.is_none() {
                        viol = Some(mk(
                            "unanswered_while_slow_peer_pending",
                            step,
                            format!("connection {} sent {:?} and was not served while a peer that does not read has a long reply pending (phase {}); it received {:?}", c, sent, phase, lines),
                        ));
                    } else if answered {
                        out.count("served_beside_slow_peer", 1);
                    }
                }
                if viol.is_some() {
                    break;
                }
            }
            other => {
                w.apply(other).await;
            }
        }
    }
    if viol.is_none() && reached_others {
        out.count("slow_big_reply.ok", 1);
    }
    out.cov_keys.push(hash_key(&["slow_big_reply", &t.actions.len().to_string()]));
    out.tails = w.conns.iter().map(|c| c.all_lines.iter().rev().take(6).rev().cloned().collect()).collect();
    for (k, v) in w.net_counters() {
        if k != "net.reads" && k != "net.writes" {
            out.count(k, v);
        }
    }
    out.violation = viol;
    out.digest = w.digest;
    out.steps = w.steps;
    out.vt_ms = rt::virtual_elapsed_ms();
    out
}
