// rt.rs - per-run thread, deterministic runtime, interposed entropy and wall clock, panic log.
//
// One simulated run = one fresh OS thread running a tokio current_thread runtime with a
// paused (virtual) clock and a seeded select! rng. std's RandomState draws its keys from
// getrandom() once per thread; we answer that call from the run seed, so HashMap iteration
// order is a function of the seed. SystemTime::now() reaches clock_gettime(CLOCK_REALTIME);
// we answer it with EPOCH0 + virtual elapsed time.

use std::cell::{Cell, RefCell};
use std::future::Future;
use std::panic;
use std::sync::atomic::{AtomicBool, Ordering};
use std::sync::Once;

pub(crate) const EPOCH0_SECS: i64 = 1_700_000_000;

#[derive(Clone, Copy)]
pub(crate) struct Rng(pub u64);

impl Rng {
    pub(crate) fn new(seed: u64) -> Rng {
        Rng(seed ^ 0x9E37_79B9_7F4A_7C15)
    }
    pub(crate) fn next_u64(&mut self) -> u64 {
        // splitmix64
        self.0 = self.0.wrapping_add(0x9E37_79B9_7F4A_7C15);
        let mut z = self.0;
        z = (z ^ (z >> 30)).wrapping_mul(0xBF58_476D_1CE4_E5B9);
        z = (z ^ (z >> 27)).wrapping_mul(0x94D0_49BB_1331_11EB);
        z ^ (z >> 31)
    }
    pub(crate) fn below(&mut self, n: usize) -> usize {
        if n == 0 {
            0
        } else {
            (self.next_u64() % (n as u64)) as usize
        }
    }
    pub(crate) fn range(&mut self, lo: usize, hi_incl: usize) -> usize {
        lo + self.below(hi_incl - lo + 1)
    }
    pub(crate) fn chance(&mut self, num: u32, den: u32) -> bool {
        (self.next_u64() % den as u64) < num as u64
    }
    pub(crate) fn pick<'a, T>(&mut self, v: &'a [T]) -> &'a T {
        &v[self.below(v.len())]
    }
    pub(crate) fn fork(&mut self, tag: u64) -> Rng {
        let a = self.next_u64();
        Rng::new(a ^ tag.wrapping_mul(0xD6E8_FEB8_6659_FD93))
    }
}

pub(crate) fn mix(a: u64, b: u64) -> u64 {
    let mut r = Rng::new(a ^ b.rotate_left(32));
    r.next_u64() ^ b
}

thread_local! {
    static SIM_ACTIVE: Cell<bool> = Cell::new(false);
    static ENTROPY: RefCell<Rng> = RefCell::new(Rng::new(0));
    static WALL_BASE: RefCell<Option<tokio::time::Instant>> = RefCell::new(None);
    static IN_CLOCK: Cell<bool> = Cell::new(false);
    pub(crate) static PANIC_LOG: RefCell<Vec<(Option<tokio::task::Id>, String)>> = RefCell::new(Vec::new());
    pub(crate) static ENTROPY_CALLS: Cell<u64> = Cell::new(0);
    pub(crate) static CLOCK_CALLS: Cell<u64> = Cell::new(0);
}

pub(crate) static QUIET_PANICS: AtomicBool = AtomicBool::new(true);

#[no_mangle]
pub unsafe extern "C" fn getrandom(buf: *mut libc::c_void, len: libc::size_t, flags: libc::c_uint) -> libc::ssize_t {
    let active = SIM_ACTIVE.try_with(|a| a.get()).unwrap_or(false);
    if active {
        let ok = ENTROPY.try_with(|e| {
            let mut e = e.borrow_mut();
            let out = std::slice::from_raw_parts_mut(buf as *mut u8, len);
            let mut i = 0;
            while i < len {
                let v = e.next_u64().to_le_bytes();
                let n = std::cmp::min(8, len - i);
                out[i..i + n].copy_from_slice(&v[..n]);
                i += n;
            }
        });
        if ok.is_ok() {
            let _ = ENTROPY_CALLS.try_with(|c| c.set(c.get() + 1));
            return len as libc::ssize_t;
        }
    }
    libc::syscall(libc::SYS_getrandom, buf, len, flags) as libc::ssize_t
}

#[no_mangle]
pub unsafe extern "C" fn clock_gettime(clk: libc::clockid_t, ts: *mut libc::timespec) -> libc::c_int {
    if clk == libc::CLOCK_REALTIME {
        let active = SIM_ACTIVE.try_with(|a| a.get()).unwrap_or(false);
        let nested = IN_CLOCK.try_with(|c| c.get()).unwrap_or(true);
        if active && !nested {
            let _ = IN_CLOCK.try_with(|c| c.set(true));
            let el = WALL_BASE
                .try_with(|b| b.borrow().map(|base| tokio::time::Instant::now().saturating_duration_since(base)))
                .ok()
                .flatten();
            let _ = IN_CLOCK.try_with(|c| c.set(false));
            if let Some(el) = el {
                (*ts).tv_sec = EPOCH0_SECS + el.as_secs() as i64;
                (*ts).tv_nsec = el.subsec_nanos() as i64;
                let _ = CLOCK_CALLS.try_with(|c| c.set(c.get() + 1));
                return 0;
            }
        }
    }
    libc::syscall(libc::SYS_clock_gettime, clk, ts) as libc::c_int
}

static HOOK: Once = Once::new();

fn install_panic_hook() {
    HOOK.call_once(|| {
        let prev = panic::take_hook();
        panic::set_hook(Box::new(move |info| {
            let loc = info
                .location()
                .map(|l| format!("{}:{}", l.file(), l.line()))
                .unwrap_or_else(|| "?".to_string());
            let msg = if let Some(s) = info.payload().downcast_ref::<&str>() {
                s.to_string()
            } else if let Some(s) = info.payload().downcast_ref::<String>() {
                s.clone()
            } else {
                "<non-string panic>".to_string()
            };
            let recorded = PANIC_LOG
                .try_with(|p| p.borrow_mut().push((tokio::task::try_id(), format!("{} @ {}", msg, loc))))
                .is_ok();
            let active = SIM_ACTIVE.try_with(|a| a.get()).unwrap_or(false);
            if !(active && recorded && QUIET_PANICS.load(Ordering::Relaxed)) || std::env::var("VERIF_LOUD").is_ok() {
                prev(info);
            }
        }));
    });
}

/// Called inside the runtime once the clock is paused: fixes the wall-clock base.
pub(crate) fn start_wall_clock() {
    WALL_BASE.with(|b| *b.borrow_mut() = Some(tokio::time::Instant::now()));
}

pub(crate) fn virtual_elapsed_ms() -> u64 {
    WALL_BASE.with(|b| {
        b.borrow()
            .map(|base| tokio::time::Instant::now().saturating_duration_since(base).as_millis() as u64)
            .unwrap_or(0)
    })
}

/// Run `f` as one simulated execution on a fresh thread. Everything nondeterministic
/// inside is a function of `seed`.
pub(crate) fn run_sim<T, F, Fut>(seed: u64, f: F) -> Result<T, String>
where
    T: Send + 'static,
    F: FnOnce() -> Fut + Send + 'static,
    Fut: Future<Output = T>,
{
    run_sim_timeout(seed, 60, f)
}

/// As run_sim, but gives up (leaking the stuck thread) after `secs` wall seconds: Err("HANG").
pub(crate) fn run_sim_timeout<T, F, Fut>(seed: u64, secs: u64, f: F) -> Result<T, String>
where
    T: Send + 'static,
    F: FnOnce() -> Fut + Send + 'static,
    Fut: Future<Output = T>,
{
    install_panic_hook();
    let (tx, rx) = std::sync::mpsc::channel::<T>();
    let h = std::thread::Builder::new()
        .name(format!("sim-{:x}", seed))
        .stack_size(4 << 20)
        .spawn(move || {
            let tx = tx;
            SIM_ACTIVE.with(|a| a.set(true));
            ENTROPY.with(|e| *e.borrow_mut() = Rng::new(mix(seed, 0x4841_5348)));
            let mut sb = [0u8; 32];
            let mut r = Rng::new(mix(seed, 0x544f_4b49));
            for ch in sb.chunks_mut(8) {
                ch.copy_from_slice(&r.next_u64().to_le_bytes());
            }
            let rt = tokio::runtime::Builder::new_current_thread()
                .enable_time()
                .start_paused(true)
                .rng_seed(tokio::runtime::RngSeed::from_bytes(&sb))
                .build()
                .expect("runtime");
            let out = rt.block_on(async move {
                start_wall_clock();
                crate::gate::install();
                let r = f().await;
                r
            });
            // tear the runtime down inside the sim thread so drops of server tasks are deterministic too
            drop(rt);
            crate::gate::uninstall();
            SIM_ACTIVE.with(|a| a.set(false));
            let _ = tx.send(out);
        })
        .map_err(|e| format!("spawn: {}", e))?;
    match rx.recv_timeout(std::time::Duration::from_secs(secs)) {
        Ok(v) => {
            let _ = h.join();
            return Ok(v);
        }
        Err(std::sync::mpsc::RecvTimeoutError::Timeout) => return Err("HANG".to_string()),
        Err(std::sync::mpsc::RecvTimeoutError::Disconnected) => {}
    }
    h.join().map(|_| unreachable!()).map_err(|e| {
        if let Some(s) = e.downcast_ref::<String>() {
            format!("sim thread panicked: {}", s)
        } else if let Some(s) = e.downcast_ref::<&str>() {
            format!("sim thread panicked: {}", s)
        } else {
            "sim thread panicked".to_string()
        }
    })
}

pub(crate) fn take_panic_log() -> Vec<(Option<tokio::task::Id>, String)> {
    PANIC_LOG.with(|p| std::mem::take(&mut *p.borrow_mut()))
}
