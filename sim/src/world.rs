// world.rs - one simulated server plus its connections; actions, traces, observations.

use crate::net::{self, SimPeer};
use crate::rt;
use crate::{
    ChannelConfig, ChannelModes, DualTcpStream, MainConfig, MainState, OperatorConfig, UserConfig, UserModes,
};
use futures::future::{Fuse, FutureExt};
use serde_derive::{Deserialize, Serialize};
use std::collections::{HashMap, HashSet};
use std::net::{IpAddr, SocketAddr};
use std::sync::{Arc, Mutex};
use std::time::Duration;
use tokio::sync::oneshot;
use tokio::task::JoinHandle;

// ---------------------------------------------------------------- configuration

#[derive(Serialize, Deserialize, Clone, Debug, Default, PartialEq)]
pub(crate) struct UModesCfg {
    #[serde(default)]
    pub invisible: bool,
    #[serde(default)]
    pub oper: bool,
    #[serde(default)]
    pub local_oper: bool,
    #[serde(default)]
    pub registered: bool,
    #[serde(default)]
    pub wallops: bool,
}

#[derive(Serialize, Deserialize, Clone, Debug, Default, PartialEq)]
pub(crate) struct OperCfg {
    pub name: String,
    pub password: String, // plain text; hashed with the server's own argon2_hash_password
    #[serde(default)]
    pub mask: Option<String>,
}

#[derive(Serialize, Deserialize, Clone, Debug, Default, PartialEq)]
pub(crate) struct UserCfg {
    pub name: String,
    pub nick: String,
    #[serde(default)]
    pub password: Option<String>,
    #[serde(default)]
    pub mask: Option<String>,
}

#[derive(Serialize, Deserialize, Clone, Debug, Default, PartialEq)]
pub(crate) struct ChanCfg {
    pub name: String,
    #[serde(default)]
    pub topic: Option<String>,
    #[serde(default)]
    pub ban: Vec<String>,
    #[serde(default)]
    pub exception: Vec<String>,
    #[serde(default)]
    pub invite_exception: Vec<String>,
    #[serde(default)]
    pub key: Option<String>,
    #[serde(default)]
    pub client_limit: Option<usize>,
    #[serde(default)]
    pub founders: Vec<String>,
    #[serde(default)]
    pub protecteds: Vec<String>,
    #[serde(default)]
    pub operators: Vec<String>,
    #[serde(default)]
    pub half_operators: Vec<String>,
    #[serde(default)]
    pub voices: Vec<String>,
    #[serde(default)]
    pub invite_only: bool,
    #[serde(default)]
    pub moderated: bool,
    #[serde(default)]
    pub secret: bool,
    #[serde(default)]
    pub protected_topic: bool,
    #[serde(default)]
    pub no_external_messages: bool,
}

#[derive(Serialize, Deserialize, Clone, Debug, PartialEq)]
pub(crate) struct SimConfig {
    pub name: String,
    pub network: String,
    pub motd: String,
    pub admin_info: String,
    #[serde(default)]
    pub admin_info2: Option<String>,
    #[serde(default)]
    pub admin_email: Option<String>,
    pub info: String,
    #[serde(default)]
    pub password: Option<String>, // plain
    #[serde(default)]
    pub max_connections: Option<usize>,
    #[serde(default)]
    pub max_joins: Option<usize>,
    pub ping_timeout: u64,
    pub pong_timeout: u64,
    #[serde(default)]
    pub default_user_modes: UModesCfg,
    #[serde(default)]
    pub operators: Vec<OperCfg>,
    #[serde(default)]
    pub users: Vec<UserCfg>,
    #[serde(default)]
    pub channels: Vec<ChanCfg>,
    /// every connection arrives over the (simulated) secure transport: `is_secure()` is true, WHOIS adds 671
    #[serde(default)]
    pub all_secure: bool,
}

impl Default for SimConfig {
    fn default() -> Self {
        SimConfig {
            name: "irc.sim".into(),
            network: "SimNet".into(),
            motd: "Hello, sim!".into(),
            admin_info: "sim admin".into(),
            admin_info2: None,
            admin_email: None,
            info: "sim server".into(),
            password: None,
            max_connections: None,
            max_joins: None,
            ping_timeout: 1_000_000,
            pong_timeout: 1_000_000,
            default_user_modes: UModesCfg::default(),
            operators: vec![],
            users: vec![],
            channels: vec![],
            all_secure: false,
        }
    }
}

lazy_static::lazy_static! {
    static ref HASH_MEMO: Mutex<HashMap<String, String>> = Mutex::new(HashMap::new());
}

pub(crate) fn hash_password(plain: &str) -> String {
    if let Some(h) = HASH_MEMO.lock().unwrap().get(plain) {
        return h.clone();
    }
    let h = crate::argon2_hash_password(plain);
    HASH_MEMO.lock().unwrap().insert(plain.to_string(), h.clone());
    h
}

fn set_opt(v: &[String]) -> Option<HashSet<String>> {
    if v.is_empty() {
        None
    } else {
        Some(v.iter().cloned().collect())
    }
}

impl SimConfig {
    pub(crate) fn to_main_config(&self) -> MainConfig {
        let mut mc = MainConfig::default();
        mc.name = self.name.clone();
        mc.network = self.network.clone();
        mc.motd = self.motd.clone();
        mc.admin_info = self.admin_info.clone();
        mc.admin_info2 = self.admin_info2.clone();
        mc.admin_email = self.admin_email.clone();
        mc.info = self.info.clone();
        mc.password = self.password.as_ref().map(|p| hash_password(p));
        mc.max_connections = self.max_connections;
        mc.max_joins = self.max_joins;
        mc.ping_timeout = self.ping_timeout;
        mc.pong_timeout = self.pong_timeout;
        mc.dns_lookup = false;
        mc.default_user_modes = UserModes {
            invisible: self.default_user_modes.invisible,
            oper: self.default_user_modes.oper,
            local_oper: self.default_user_modes.local_oper,
            registered: self.default_user_modes.registered,
            wallops: self.default_user_modes.wallops,
        };
        if !self.operators.is_empty() {
            mc.operators = Some(
                self.operators
                    .iter()
                    .map(|o| OperatorConfig { name: o.name.clone(), password: hash_password(&o.password), mask: o.mask.clone() })
                    .collect(),
            );
        }
        if !self.users.is_empty() {
            mc.users = Some(
                self.users
                    .iter()
                    .map(|u| UserConfig {
                        name: u.name.clone(),
                        nick: u.nick.clone(),
                        password: u.password.as_ref().map(|p| hash_password(p)),
                        mask: u.mask.clone(),
                    })
                    .collect(),
            );
        }
        if !self.channels.is_empty() {
            mc.channels = Some(
                self.channels
                    .iter()
                    .map(|c| ChannelConfig {
                        name: c.name.clone(),
                        topic: c.topic.clone(),
                        modes: ChannelModes {
                            ban: set_opt(&c.ban),
                            exception: set_opt(&c.exception),
                            client_limit: c.client_limit,
                            invite_exception: set_opt(&c.invite_exception),
                            key: c.key.clone(),
                            operators: set_opt(&c.operators),
                            half_operators: set_opt(&c.half_operators),
                            voices: set_opt(&c.voices),
                            founders: set_opt(&c.founders),
                            protecteds: set_opt(&c.protecteds),
                            invite_only: c.invite_only,
                            moderated: c.moderated,
                            secret: c.secret,
                            protected_topic: c.protected_topic,
                            no_external_messages: c.no_external_messages,
                        },
                    })
                    .collect(),
            );
        }
        mc
    }
}

// ---------------------------------------------------------------- actions and traces

/// bytes <-> printable string (\xNN for everything outside printable ASCII, \\ for backslash)
pub(crate) fn esc(b: &[u8]) -> String {
    let mut s = String::with_capacity(b.len());
    for &c in b {
        match c {
            b'\\' => s.push_str("\\\\"),
            0x20..=0x7e => s.push(c as char),
            b'\r' => s.push_str("\\r"),
            b'\n' => s.push_str("\\n"),
            _ => s.push_str(&format!("\\x{:02x}", c)),
        }
    }
    s
}

pub(crate) fn unesc(s: &str) -> Vec<u8> {
    let b = s.as_bytes();
    let mut out = Vec::with_capacity(b.len());
    let mut i = 0;
    while i < b.len() {
        if b[i] == b'\\' && i + 1 < b.len() {
            match b[i + 1] {
                b'\\' => {
                    out.push(b'\\');
                    i += 2;
                }
                b'r' => {
                    out.push(b'\r');
                    i += 2;
                }
                b'n' => {
                    out.push(b'\n');
                    i += 2;
                }
                b'x' if i + 3 < b.len() => {
                    let h = std::str::from_utf8(&b[i + 2..i + 4]).ok().and_then(|h| u8::from_str_radix(h, 16).ok());
                    if let Some(v) = h {
                        out.push(v);
                        i += 4;
                    } else {
                        out.push(b[i]);
                        i += 1;
                    }
                }
                _ => {
                    out.push(b[i]);
                    i += 1;
                }
            }
        } else {
            out.push(b[i]);
            i += 1;
        }
    }
    out
}

#[derive(Serialize, Deserialize, Clone, Debug, PartialEq)]
#[serde(tag = "a")]
pub(crate) enum Action {
    Open { ip: String },
    OpenSecure { ip: String },
    /// one TCP segment from client c (escaped bytes)
    Send { c: usize, d: String },
    /// quiescence barrier: ends a step
    Settle,
    CloseWrite { c: usize },
    Reset { c: usize },
    BreakWrites { c: usize },
    Window { c: usize, n: usize },
    Grant { c: usize, n: usize },
    ReadCap { c: usize, n: usize },
    WriteCap { c: usize, n: usize },
    Advance { ms: u64 },
    Gates { r: [u32; 3], seed: u64 },
    Release { k: usize },
    ReleaseAll,
    /// oracle-level marker (free text), ignored by the world
    Mark { m: String },
}

impl Action {
    pub(crate) fn line(c: usize, l: &str) -> Action {
        let mut d = l.as_bytes().to_vec();
        d.extend_from_slice(b"\r\n");
        Action::Send { c, d: esc(&d) }
    }
    pub(crate) fn conn(&self) -> Option<usize> {
        match self {
            Action::Send { c, .. }
            | Action::CloseWrite { c }
            | Action::Reset { c }
            | Action::BreakWrites { c }
            | Action::Window { c, .. }
            | Action::Grant { c, .. }
            | Action::ReadCap { c, .. }
            | Action::WriteCap { c, .. } => Some(*c),
            _ => None,
        }
    }
}

#[derive(Serialize, Deserialize, Clone, Debug)]
pub(crate) struct Trace {
    pub check: String,
    pub seed: u64,
    pub run_seed: u64,
    pub config: SimConfig,
    #[serde(default)]
    pub params: HashMap<String, String>,
    pub actions: Vec<Action>,
}

// ---------------------------------------------------------------- the world

pub(crate) struct Conn {
    pub peer: SimPeer,
    pub handle: Option<JoinHandle<()>>,
    pub task_id: tokio::task::Id,
    pub ip: String,
    rx_partial: Vec<u8>,
    pub ended: bool,    // server task finished
    pub panicked: bool, // ... by panic
    pub eof_seen: bool, // server dropped its half (client sees EOF)
    pub client_closed: bool,
    pub all_lines: Vec<String>,
    pub raw_tail: Vec<u8>,
    pub bad_framing: Option<String>,
}

#[derive(Clone, Debug, Default)]
pub(crate) struct ConnObs {
    pub lines: Vec<String>,
    pub eof: bool,      // true once the server closed this connection
    pub panicked: bool, // handler ended by panic
}

pub(crate) struct World {
    pub ms: Arc<MainState>,
    pub conns: Vec<Conn>,
    quit_rx: Fuse<oneshot::Receiver<String>>,
    pub server_quit: Option<String>,
    pub digest: u64,
    pub steps: u64,
    pub cfg: SimConfig,
}

fn fnv(d: &mut u64, bytes: &[u8]) {
    for &b in bytes {
        *d ^= b as u64;
        *d = d.wrapping_mul(0x100_0000_01b3);
    }
}

impl World {
    pub(crate) async fn new(cfg: &SimConfig) -> World {
        let mc = cfg.to_main_config();
        let ms = Arc::new(MainState::new_from_config(mc));
        let quit_rx = ms.get_quit_receiver().await;
        World { ms, conns: vec![], quit_rx, server_quit: None, digest: 0xcbf2_9ce4_8422_2325, steps: 0, cfg: cfg.clone() }
    }

    /// a world whose server configuration was produced by the server's own start-up path
    pub(crate) async fn from_main_config(mc: MainConfig, cfg: &SimConfig) -> World {
        let ms = Arc::new(MainState::new_from_config(mc));
        let quit_rx = ms.get_quit_receiver().await;
        World { ms, conns: vec![], quit_rx, server_quit: None, digest: 0xcbf2_9ce4_8422_2325, steps: 0, cfg: cfg.clone() }
    }

    pub(crate) fn open(&mut self, ip: &str, secure: bool) -> usize {
        let (stream, peer) = net::pair(secure);
        let ipaddr: IpAddr = ip.parse().unwrap_or_else(|_| "127.0.0.1".parse().unwrap());
        let addr = SocketAddr::new(ipaddr, 40000 + self.conns.len() as u16);
        let ms = self.ms.clone();
        let h = tokio::spawn(crate::verif_user_state_process(ms, DualTcpStream::SimStream(Box::new(stream)), addr));
        let id = h.id();
        self.conns.push(Conn {
            peer,
            handle: Some(h),
            task_id: id,
            ip: ip.to_string(),
            rx_partial: vec![],
            ended: false,
            panicked: false,
            eof_seen: false,
            client_closed: false,
            all_lines: vec![],
            raw_tail: vec![],
            bad_framing: None,
        });
        self.conns.len() - 1
    }

    pub(crate) async fn settle(&mut self) {
        tokio::time::sleep(Duration::from_millis(1)).await;
        self.steps += 1;
    }

    pub(crate) async fn apply(&mut self, a: &Action) {
        match a {
            Action::Open { ip } => {
                self.open(ip, false);
            }
            Action::OpenSecure { ip } => {
                self.open(ip, true);
            }
            Action::Send { c, d } => {
                if let Some(cn) = self.conns.get(*c) {
                    cn.peer.push(&unesc(d));
                }
            }
            Action::Settle => self.settle().await,
            Action::CloseWrite { c } => {
                if let Some(cn) = self.conns.get_mut(*c) {
                    cn.peer.close_write();
                    cn.client_closed = true;
                }
            }
            Action::Reset { c } => {
                if let Some(cn) = self.conns.get_mut(*c) {
                    cn.peer.reset();
                    cn.client_closed = true;
                }
            }
            Action::BreakWrites { c } => {
                if let Some(cn) = self.conns.get(*c) {
                    cn.peer.break_writes();
                }
            }
            Action::Window { c, n } => {
                if let Some(cn) = self.conns.get(*c) {
                    cn.peer.set_window(*n);
                }
            }
            Action::Grant { c, n } => {
                if let Some(cn) = self.conns.get(*c) {
                    cn.peer.grant(*n);
                }
            }
            Action::ReadCap { c, n } => {
                if let Some(cn) = self.conns.get(*c) {
                    cn.peer.set_read_cap(*n);
                }
            }
            Action::WriteCap { c, n } => {
                if let Some(cn) = self.conns.get(*c) {
                    cn.peer.set_write_cap(*n);
                }
            }
            Action::Advance { ms } => {
                tokio::time::sleep(Duration::from_millis(*ms)).await;
            }
            Action::Gates { r, seed } => crate::gate::set_policy(*r, *seed),
            Action::Release { k } => {
                crate::gate::release_nth(*k);
            }
            Action::ReleaseAll => {
                crate::gate::release_all();
            }
            Action::Mark { .. } => {}
        }
    }

    /// Collect what every connection received since the last call.
    pub(crate) fn observe(&mut self) -> Vec<ConnObs> {
        let mut out = Vec::with_capacity(self.conns.len());
        if self.server_quit.is_none() {
            if let Some(Ok(m)) = (&mut self.quit_rx).now_or_never() {
                self.server_quit = Some(m);
            }
        }
        for (ci, cn) in self.conns.iter_mut().enumerate() {
            let mut obs = ConnObs::default();
            let bytes = cn.peer.take_output();
            if !bytes.is_empty() {
                // framing audit: every LF must be preceded by CR, no empty lines (C13 d)
                let mut prev: Option<u8> = cn.raw_tail.last().copied();
                let mut line_len = cn.rx_partial.len();
                for &b in &bytes {
                    if b == b'\n' {
                        if prev != Some(b'\r') && cn.bad_framing.is_none() {
                            cn.bad_framing = Some("LF without CR".into());
                        }
                        if line_len <= 1 && cn.bad_framing.is_none() {
                            cn.bad_framing = Some("empty line emitted".into());
                        }
                        line_len = 0;
                    } else {
                        line_len += 1;
                    }
                    prev = Some(b);
                }
                cn.raw_tail = bytes[bytes.len().saturating_sub(4)..].to_vec();
                cn.rx_partial.extend_from_slice(&bytes);
                while let Some(pos) = cn.rx_partial.iter().position(|&b| b == b'\n') {
                    let mut line: Vec<u8> = cn.rx_partial.drain(..=pos).collect();
                    line.pop();
                    if line.last() == Some(&b'\r') {
                        line.pop();
                    }
                    let s = String::from_utf8_lossy(&line).into_owned();
                    cn.all_lines.push(s.clone());
                    obs.lines.push(s);
                }
            }
            if !cn.ended {
                if let Some(h) = cn.handle.as_mut() {
                    if h.is_finished() {
                        cn.ended = true;
                        if let Some(Err(e)) = h.now_or_never() {
                            if e.is_panic() {
                                cn.panicked = true;
                            }
                        }
                        cn.handle = None;
                    }
                }
            }
            if cn.peer.server_dropped() {
                cn.eof_seen = true;
            }
            obs.eof = cn.eof_seen;
            obs.panicked = cn.panicked;
            fnv(&mut self.digest, &[ci as u8, obs.eof as u8, obs.panicked as u8]);
            for l in &obs.lines {
                fnv(&mut self.digest, l.as_bytes());
                fnv(&mut self.digest, b"\n");
            }
            out.push(obs);
        }
        fnv(&mut self.digest, &rt::virtual_elapsed_ms().to_le_bytes());
        out
    }

    /// transport-level fault counters: how often the simulated TCP actually delivered short reads / writes
    /// or made a writer wait
    pub(crate) fn net_counters(&self) -> Vec<(&'static str, u64)> {
        let mut t = (0u64, 0u64, 0u64, 0u64, 0u64);
        for c in &self.conns {
            let s = c.peer.stats();
            t.0 += s.0;
            t.1 += s.1;
            t.2 += s.2;
            t.3 += s.3;
            t.4 += s.4;
        }
        vec![("net.reads", t.0), ("net.short_reads", t.1), ("net.writes", t.2), ("net.short_writes", t.3), ("net.writer_blocked", t.4)]
    }

    pub(crate) fn conn_of_task(&self, id: tokio::task::Id) -> Option<usize> {
        self.conns.iter().position(|c| c.task_id == id)
    }
}
