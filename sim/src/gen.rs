// gen.rs - model-guided workload generation for the step-mode checks.
// The generator reads the reference model's current state to produce meaningful actions and
// records the concrete bytes; replay and shrinking never call back into this code.

use crate::model::*;
use crate::rt::Rng;
use crate::world::*;

#[derive(Clone, Copy, Debug, PartialEq, Eq, Hash)]
pub(crate) enum K {
    Register,
    RegPiece,
    CompletionCollision,
    NewConn,
    Join,
    JoinMulti,
    Part,
    Kick,
    Topic,
    TopicQuery,
    Invite,
    Names,
    List,
    ModeChan,
    ModeQuery,
    ModeList,
    ModeUser,
    ModeMask,
    WhoMask,
    Privmsg,
    Notice,
    Who,
    Whois,
    Whowas,
    Oper,
    Kill,
    Wallops,
    Stats,
    Away,
    Ison,
    Userhost,
    Lusers,
    Nick,
    Quit,
    Eof,
    EofMidLine,
    Reset,
    HalfOpen,
    Backpressure,
    Ping,
    Gated,
    CapStuff,
    Die,
    Motd,
    Opaque,
    ReReg,
    BanExcept,
    SlowPeer,
}

pub(crate) const NICKS: &[&str] = &["ann", "bob", "cat", "dan", "eve", "fay", "gus", "hal", "root", "ops", "żółw", "ünï", "a", "bobby", "Ann", "BOB"];
pub(crate) const CHANS: &[&str] = &["#a", "#b", "#c", "#d", "#pre", "#sec", "&loc", "#A"];

#[derive(Clone, Debug)]
pub(crate) struct Profile {
    pub weights: Vec<(K, u32)>,
    pub conns: (usize, usize),
    pub steps: (usize, usize),
    pub nick_pool: usize,
    pub chan_pool: usize,
    /// connections registered up front (before the random part)
    pub pre_register: usize,
    pub multi_prefix_rate: (u32, u32),
    pub ipv6: bool,
}

impl Profile {
    pub(crate) fn base() -> Profile {
        Profile {
            weights: vec![],
            conns: (3, 6),
            steps: (25, 70),
            nick_pool: 6,
            chan_pool: 4,
            pre_register: 3,
            multi_prefix_rate: (1, 3),
            ipv6: false,
        }
    }
    pub(crate) fn w(mut self, ws: &[(K, u32)]) -> Profile {
        for (k, n) in ws {
            if let Some(e) = self.weights.iter_mut().find(|(kk, _)| kk == k) {
                e.1 = *n;
            } else {
                self.weights.push((*k, *n));
            }
        }
        self
    }
}

#[derive(Clone)]
pub(crate) struct Gen<'a> {
    pub r: Rng,
    pub m: Model,
    pub prof: &'a Profile,
    pub actions: Vec<Action>,
    pub uniq: u32,
    pub n_conns_target: usize,
    /// connections never chosen by the random part (driven by the scenario itself)
    pub exclude: Vec<usize>,
    /// what the model said about the last emitted step (labels), its connection and its first line
    pub last_labels: Vec<String>,
    pub last_conn: Option<usize>,
    pub last_line: String,
    pub follow_rate: (u32, u32),
    /// transport fragmentation for this history: capped reads/writes on some connections, lines sent in two pieces
    pub frag: bool,
    /// some steps send two or three commands of one connection in one TCP segment
    pub pipe: bool,
    no_settle: bool,
    /// all pre-registered connections join one channel in the set-up
    pub big_channel: bool,
    /// some lines carry another user's full source as prefix
    pub spoof: bool,
}

/// the short form of a full list mask, if it has one: n!*@* -> n, n!*@h -> n@h, n!u@* -> n!u
pub(crate) fn shorten_mask(m: &str) -> String {
    if let Some((n, rest)) = m.split_once('!') {
        if let Some((u, h)) = rest.split_once('@') {
            if n.contains('@') || u.contains('!') || h.contains('@') || h.contains('!') {
                return m.to_string();
            }
            if u == "*" && h == "*" && !n.is_empty() {
                return n.to_string();
            }
            if u == "*" && !n.is_empty() {
                return format!("{}@{}", n, h);
            }
            if h == "*" {
                return format!("{}!{}", n, u);
            }
        }
    }
    m.to_string()
}

fn ip_for(i: usize, v6: bool) -> String {
    if v6 && i % 3 == 2 {
        format!("2001:db8::{:x}", i + 1)
    } else {
        format!("10.0.0.{}", i + 1)
    }
}

impl<'a> Gen<'a> {
    pub(crate) fn new(seed: u64, cfg: &SimConfig, prof: &'a Profile) -> Gen<'a> {
        let mut r = Rng::new(seed);
        let n = r.range(prof.conns.0, prof.conns.1);
        Gen { r, m: Model::new(cfg), prof, actions: vec![], uniq: 0, n_conns_target: n, exclude: vec![], last_labels: vec![], last_conn: None, last_line: String::new(), follow_rate: (1, 3), frag: false, pipe: false, no_settle: false, big_channel: false, spoof: false }
    }

    fn text(&mut self) -> String {
        self.uniq += 1;
        if self.r.chance(1, 12) {
            // blank-free texts that begin with a colon (sent as "::)" - the relay must keep the colon), or are a lone colon
            return match self.r.below(4) {
                0 => format!(":){}", self.uniq),
                1 => format!("::{}", self.uniq),
                2 => ":".to_string(),
                _ => format!(":-){}:", self.uniq),
            };
        }
        let extras = ["", " with spaces", " a:b colon", " :lead", " żółć", "  two  blanks ", " tail:"];
        format!("t{}{}", self.uniq, extras[self.r.below(extras.len())])
    }

    pub(crate) fn registered_conns(&self) -> Vec<usize> {
        (0..self.m.conns.len()).filter(|&c| self.m.conns[c].alive && self.m.conns[c].registered && !self.m.conns[c].deaf && !self.exclude.contains(&c)).collect()
    }
    fn unregistered_conns(&self) -> Vec<usize> {
        (0..self.m.conns.len()).filter(|&c| self.m.conns[c].alive && !self.m.conns[c].registered && !self.exclude.contains(&c)).collect()
    }
    fn nick_of(&self, c: usize) -> String {
        self.m.conns[c].nick.clone().unwrap_or_default()
    }
    fn pick_nick_pool(&mut self) -> String {
        if self.r.chance(1, 20) {
            // nicknames at and beyond the advertised NICKLEN (the server accepts any length); they share a 200-character prefix
            let base = format!("L{}", "o".repeat(199));
            return match self.r.below(9) {
                0 => base,
                1 => format!("{}y", base),
                2 => format!("{}{}", base, "z".repeat(30)),
                // wildcard characters are legal in a nickname too: as a WHO/WHOIS argument such a nickname is a mask
                // that matches other users as well
                6 => "?nn".to_string(),
                7 => "b?b".to_string(),
                8 => "a*".to_string(),
                // legal for this server: only '.', ',', ':' and a leading '#'/'&' are forbidden in a nickname
                3 => "lu!cki".to_string(),
                4 => "at@sign".to_string(),
                _ => "x!y@z".to_string(),
            };
        }
        if self.r.chance(1, 30) && !self.m.users.is_empty() {
            // a case variant of somebody's nickname: a different nickname for this server (names are case-sensitive)
            let ex: Vec<String> = self.m.users.keys().cloned().collect();
            let n = ex[self.r.below(ex.len())].clone();
            let v = if self.r.chance(1, 2) { n.to_uppercase() } else { n.chars().enumerate().map(|(i, ch)| if i == 0 { ch.to_ascii_uppercase() } else { ch }).collect() };
            if v != n {
                return v;
            }
        }
        NICKS[self.r.below(std::cmp::min(self.prof.nick_pool, NICKS.len()))].to_string()
    }
    fn pick_chan_pool(&mut self) -> String {
        if self.r.chance(1, 30) {
            // unusual but legal channel names: dots, multi-byte, long
            return match self.r.below(5) {
                0 => "#rust.dev".to_string(),
                1 => "&x.y".to_string(),
                2 => "#żółw".to_string(),
                3 => "#.".to_string(),
                _ => format!("#{}", "c".repeat(200)),
            };
        }
        CHANS[self.r.below(std::cmp::min(self.prof.chan_pool, CHANS.len()))].to_string()
    }
    fn pick_chan(&mut self) -> String {
        let ex: Vec<String> = self.m.chans.keys().cloned().collect();
        if !ex.is_empty() && self.r.chance(5, 6) {
            ex[self.r.below(ex.len())].clone()
        } else {
            self.pick_chan_pool()
        }
    }
    fn pick_chan_of(&mut self, nick: &str) -> Option<String> {
        let v: Vec<String> = self.m.users.get(nick).map(|u| u.chans.iter().cloned().collect()).unwrap_or_default();
        if v.is_empty() {
            None
        } else {
            Some(v[self.r.below(v.len())].clone())
        }
    }
    fn pick_user(&mut self) -> String {
        let ex: Vec<String> = self.m.users.keys().cloned().collect();
        if !ex.is_empty() && self.r.chance(5, 6) {
            ex[self.r.below(ex.len())].clone()
        } else {
            self.pick_nick_pool()
        }
    }
    fn pick_member(&mut self, chan: &str) -> Option<String> {
        let v: Vec<String> = self.m.chans.get(chan).map(|c| c.members.keys().cloned().collect()).unwrap_or_default();
        if v.is_empty() {
            None
        } else {
            Some(v[self.r.below(v.len())].clone())
        }
    }
    fn free_nick(&mut self) -> String {
        let pool = std::cmp::min(self.prof.nick_pool, NICKS.len());
        for _ in 0..8 {
            let n = NICKS[self.r.below(pool)];
            if !self.m.users.contains_key(n) {
                return n.to_string();
            }
        }
        self.uniq += 1;
        format!("x{}", self.uniq)
    }

    /// a mask that (nearly) matches somebody's identity
    fn mask(&mut self) -> String {
        let users: Vec<MUser> = self.m.users.values().cloned().collect();
        if users.is_empty() || self.r.chance(1, 8) {
            return ["*!*@*", "nobody!*@*", "*!*@10.9.9.9", "*"][self.r.below(4)].to_string();
        }
        let u = users[self.r.below(users.len())].clone();
        let host_pat = {
            let h = u.host.clone();
            if h.contains(':') {
                "*".to_string()
            } else {
                let cut = h.rfind('.').unwrap_or(h.len());
                format!("{}.*", &h[..cut])
            }
        };
        match self.r.below(12) {
            0 => format!("{}!*@*", u.nick),
            1 => u.nick.clone(),
            2 => format!("*!~{}@*", u.user),
            3 => format!("*!*@{}", if u.host.contains(':') { "*".to_string() } else { u.host.clone() }),
            4 => format!("*!*@{}", host_pat),
            5 => format!("{}!~{}", u.nick, u.user),
            6 => format!("{}@{}", u.nick, if u.host.contains(':') { "*".to_string() } else { u.host.clone() }),
            7 => format!("{}?!*@*", u.nick.chars().take(u.nick.chars().count().saturating_sub(1)).collect::<String>()),
            8 => format!("?{}!*@*", u.nick.chars().skip(1).collect::<String>()),
            9 => format!("{}x!*@*", u.nick),
            10 => format!("*{}*!*@*", u.nick.chars().skip(1).collect::<String>()),
            _ => "*!*@*".to_string(),
        }
    }

    /// adversarial mask built from a present identity (or name): nearly matching, over-long literal runs,
    /// leading/trailing/consecutive wildcards, '?' against multi-byte characters, short forms
    pub(crate) fn mask_adv(&mut self, base: Option<String>) -> String {
        let users: Vec<MUser> = self.m.users.values().cloned().collect();
        let ident = match base {
            Some(b) => b,
            None => {
                if users.is_empty() {
                    "nobody!~none@10.9.9.9".to_string()
                } else {
                    users[self.r.below(users.len())].src()
                }
            }
        };
        let mut m: Vec<char> = ident.chars().collect();
        let nops = self.r.range(1, 3);
        for _ in 0..nops {
            if m.is_empty() {
                break;
            }
            match self.r.below(14) {
                0 | 1 => {
                    // replace a (possibly empty) run by '*'
                    let a = self.r.below(m.len() + 1);
                    let b = a + self.r.below(m.len() - a + 1);
                    m.splice(a..b, std::iter::once('*'));
                }
                2 => {
                    let i = self.r.below(m.len());
                    m[i] = '?';
                }
                3 => {
                    let i = self.r.below(m.len() + 1);
                    m.insert(i, ['x', 'a', '0', 'ż', '~'][self.r.below(5)]);
                }
                4 => m.insert(0, '*'),
                5 => m.push('*'),
                6 => {
                    if let Some(i) = m.iter().position(|c| *c == '*') {
                        m.insert(i, '*');
                    } else {
                        m.push('*');
                        m.push('*');
                    }
                }
                7 => {
                    let i = self.r.below(m.len());
                    m.remove(i);
                }
                8 => {
                    // short forms
                    let s: String = m.iter().collect();
                    let nick = s.split('!').next().unwrap_or("").to_string();
                    let host = s.rsplit('@').next().unwrap_or("").to_string();
                    let user = s.split('!').nth(1).and_then(|x| x.split('@').next()).unwrap_or("").to_string();
                    let f = match self.r.below(3) {
                        0 => nick,
                        1 => format!("{}@{}", nick, host),
                        _ => format!("{}!{}", nick, user),
                    };
                    m = f.chars().collect();
                }
                9 => {
                    // a literal run longer than the text, behind a star
                    let n = m.len() + self.r.range(1, 8);
                    let lit: String = std::iter::repeat('a').take(n).collect();
                    let f = match self.r.below(3) {
                        0 => format!("*{}", lit),
                        1 => format!("*{}*", lit),
                        _ => format!("*!*@*{}", lit),
                    };
                    m = f.chars().collect();
                }
                10 => {
                    let n = ident.chars().count() + self.r.below(2);
                    m = std::iter::repeat('?').take(n).collect();
                }
                11 => {
                    // star in the middle followed by the real tail, text ending exactly at the star
                    let i = self.r.below(m.len());
                    let tail: Vec<char> = vec!['*', 'z', 'z'];
                    m.truncate(i + 1);
                    m.extend(tail);
                }
                12 => {
                    let i = self.r.below(m.len());
                    m.truncate(i + 1);
                    m.push('*');
                    m.push('?');
                }
                _ => {
                    // everything after some point replaced by "*" + its last k chars
                    let i = self.r.below(m.len());
                    let k = self.r.below(4);
                    let tail: Vec<char> = m[m.len().saturating_sub(k)..].to_vec();
                    m.truncate(i);
                    m.push('*');
                    m.extend(tail);
                }
            }
        }
        let mut s: String = m.into_iter().filter(|c| *c != ' ' && *c != ',').collect();
        if s.is_empty() || s.starts_with(':') || s.starts_with('+') || s.starts_with('-') {
            s = format!("*{}", s);
        }
        s
    }

    pub(crate) fn emit(&mut self, acts: Vec<Action>) -> bool {
        // apply to a trial copy of the model; drop the step if the model calls it ambiguous
        let mut trial = self.m.clone();
        let mut labels: Vec<String> = vec![];
        for a in &acts {
            let se = match a {
                Action::Open { ip } | Action::OpenSecure { ip } => trial.open(ip),
                Action::Send { c, d } => trial.input(*c, &unesc(d)),
                Action::CloseWrite { c } => trial.close_write(*c),
                Action::Reset { c } => trial.reset(*c),
                Action::BreakWrites { c } => trial.break_writes(*c),
                _ => StepExp::default(),
            };
            if se.ambiguous.is_some() {
                return false;
            }
            labels.extend(se.labels);
        }
        self.m = trial;
        self.last_labels = labels;
        self.last_conn = acts.iter().filter_map(|a| a.conn()).next();
        let first_sender = acts.iter().filter_map(|a| if let Action::Send { c, .. } = a { Some(*c) } else { None }).next();
        let mut joined: Vec<u8> = vec![];
        for a in &acts {
            if let Action::Send { c, d } = a {
                if Some(*c) == first_sender {
                    joined.extend(unesc(d));
                }
            }
        }
        self.last_line = String::from_utf8_lossy(&joined).lines().next().unwrap_or("").trim_end().to_string();
        self.actions.extend(acts);
        if !self.no_settle {
            self.actions.push(Action::Settle);
        }
        true
    }

    /// two or three commands of one connection in one segment: handled strictly in order by that connection's
    /// task, their effects compared as one step
    fn pipelined_step(&mut self) -> bool {
        let regs = self.registered_conns();
        if regs.is_empty() {
            return false;
        }
        let c = regs[self.r.below(regs.len())];
        let kinds = [K::Privmsg, K::Notice, K::Join, K::Part, K::Names, K::Who, K::Whois, K::Topic, K::TopicQuery, K::Away, K::Ison, K::Userhost, K::Lusers, K::Ping, K::Nick, K::Invite, K::Kick, K::List, K::ModeQuery, K::Whowas];
        let n = self.r.range(2, 3);
        let mut sent = 0;
        let mut used: Vec<K> = vec![];
        for _ in 0..n {
            if !self.m.conns[c].alive || !self.m.conns[c].registered {
                break;
            }
            let kind = kinds[self.r.below(kinds.len())];
            if used.contains(&kind) {
                // (two replies of the same kind with open parts - e.g. two 319 lists - cannot be told apart in one step)
                continue;
            }
            used.push(kind);
            if let Some(line) = self.dry(kind, c) {
                if line.len() > 1900 {
                    // a line that ends the session (417) would take the queued echoes of the commands before it with it
                    continue;
                }
                self.no_settle = true;
                let ok = self.emit(vec![Action::line(c, &line)]);
                self.no_settle = false;
                if ok {
                    sent += 1;
                }
            }
        }
        if sent > 0 {
            self.actions.push(Action::Settle);
        }
        sent > 0
    }

    /// the line(s) a step of this kind would send now, without changing anything (for burst scripts, whose
    /// execution order is decided by the scheduler, not by the generator)
    pub(crate) fn dry(&mut self, kind: K, conn: usize) -> Option<String> {
        let mut tmp = self.clone();
        // force the acting connection: exclude every other registered one
        tmp.exclude = (0..tmp.m.conns.len()).filter(|c| *c != conn).collect();
        tmp.follow_rate = (0, 1);
        tmp.frag = false;
        let before = tmp.actions.len();
        let ok = tmp.step(kind);
        self.r = tmp.r;
        self.uniq = tmp.uniq;
        if !ok {
            return None;
        }
        let sends: Vec<(usize, String)> = tmp.actions[before..]
            .iter()
            .filter_map(|a| if let Action::Send { c, d } = a { Some((*c, String::from_utf8_lossy(&unesc(d)).trim_end().to_string())) } else { None })
            .collect();
        if sends.len() == 1 && sends[0].0 == conn && !sends[0].1.contains('\n') {
            Some(sends[0].1.clone())
        } else {
            None
        }
    }

    pub(crate) fn say(&mut self, c: usize, line: &str) -> bool {
        if self.spoof && self.r.chance(1, 12) && !line.starts_with(':') {
            // the client puts somebody else's full source in front of its line: the server never takes a client's word for it
            let me = self.m.conns.get(c).and_then(|x| x.nick.clone()).unwrap_or_default();
            let other: Option<String> = self.m.users.values().find(|u| u.nick != me && !u.nick.contains('!') && !u.nick.contains('@')).map(|u| u.src());
            // (only sources that are well formed for this server: no ':', and '!' before '@' - anything else is a syntax
            // error of the line, which is C13's business, not a spoofing attempt)
            let other = other.filter(|s| !s.contains(':') && !s.contains(' ') && matches!((s.find('!'), s.find('@')), (Some(a), Some(b)) if a < b));
            if let Some(src) = other {
                let l2 = format!(":{} {}", src, line);
                return self.emit(vec![Action::line(c, &l2)]);
            }
        }
        if self.frag && self.r.chance(1, 3) {
            // the line arrives in two segments (possibly cut inside a multi-byte character or between CR and LF),
            // sometimes with a pause in which the server sees only the first part
            let full = format!("{}\r\n", line).into_bytes();
            let k = 1 + self.r.below(full.len() - 1);
            let mut acts = vec![Action::Send { c, d: esc(&full[..k]) }];
            if self.r.chance(1, 2) {
                acts.push(Action::Settle);
            }
            acts.push(Action::Send { c, d: esc(&full[k..]) });
            return self.emit(acts);
        }
        self.emit(vec![Action::line(c, line)])
    }

    pub(crate) fn mark(&mut self, m: &str) {
        self.actions.push(Action::Mark { m: m.to_string() });
    }

    pub(crate) fn open_conn(&mut self) -> usize {
        let i = self.m.conns.len();
        let ip = ip_for(i, self.prof.ipv6);
        let mut acts = vec![if self.m.cfg.all_secure { Action::OpenSecure { ip } } else { Action::Open { ip } }];
        if self.frag {
            if self.r.chance(1, 2) {
                acts.push(Action::ReadCap { c: i, n: self.r.range(1, 9) });
            }
            if self.r.chance(1, 2) {
                acts.push(Action::WriteCap { c: i, n: self.r.range(1, 40) });
            }
        }
        self.emit(acts);
        i
    }

    /// full registration of connection c under `nick` (uses the passwords the configuration requires)
    pub(crate) fn register(&mut self, c: usize, nick: &str, user: &str) {
        let cfgu = self.m.cfg.users.iter().rev().find(|u| u.name == user).cloned();
        let pass = cfgu.and_then(|u| u.password).or(self.m.cfg.password.clone());
        if self.r.chance(self.prof.multi_prefix_rate.0, self.prof.multi_prefix_rate.1) {
            self.say(c, "CAP REQ :multi-prefix");
        }
        if let Some(p) = pass {
            self.say(c, &format!("PASS {}", p));
        }
        self.say(c, &format!("NICK {}", nick));
        // (real names may look like addresses or sources: WHO masks are compared with them too)
        let real = match self.r.below(12) {
            0 => format!("{}@mail.example.org", nick),
            1 => format!("Real! {}@home", nick),
            _ => format!("Real {}", nick),
        };
        self.say(c, &format!("USER {} 0 * :{}", user, real));
        if self.m.conns[c].cap_neg {
            self.say(c, "CAP END");
        }
    }

    pub(crate) fn setup(&mut self) {
        let n = std::cmp::min(self.prof.pre_register, self.n_conns_target);
        for i in 0..n {
            let c = self.open_conn();
            let nick = if i < NICKS.len() { NICKS[i].to_string() } else { format!("m{}", i) };
            let user = format!("u{}", i);
            self.register(c, &nick, &user);
        }
        if self.big_channel {
            // a channel with more members than fit on one 353 line (the server puts 20 names on a line)
            for c in 0..n {
                if self.m.conns[c].registered {
                    self.say(c, "JOIN #big");
                }
            }
        }
    }

    pub(crate) fn run(&mut self) {
        let steps = self.r.range(self.prof.steps.0, self.prof.steps.1);
        let total: u32 = self.prof.weights.iter().map(|(_, w)| *w).sum();
        if total == 0 {
            return;
        }
        let mut done = 0;
        let mut tries = 0;
        while done < steps && tries < steps * 6 {
            tries += 1;
            let mut x = (self.r.next_u64() % total as u64) as u32;
            let mut kind = self.prof.weights[0].0;
            for (k, w) in &self.prof.weights {
                if x < *w {
                    kind = *k;
                    break;
                }
                x -= *w;
            }
            if self.m.server_quit {
                break;
            }
            if self.pipe && self.r.chance(1, 5) {
                if self.pipelined_step() {
                    done += 1;
                }
                continue;
            }
            if self.step(kind) {
                done += 1;
                if self.r.chance(self.follow_rate.0, self.follow_rate.1) {
                    done += self.follow_up();
                }
            }
        }
    }

    /// after a step that changed something, look at exactly the thing that changed (probes and enforcement)
    pub(crate) fn follow_up(&mut self) -> usize {
        let labels = self.last_labels.clone();
        let line = self.last_line.clone();
        let words: Vec<String> = line.split(' ').map(|s| s.to_string()).collect();
        let lc = self.last_conn;
        let regs = self.registered_conns();
        if regs.is_empty() {
            return 0;
        }
        let other = |g: &mut Gen, not: Option<usize>| -> usize {
            let v: Vec<usize> = regs.iter().copied().filter(|c| Some(*c) != not).collect();
            if v.is_empty() {
                regs[0]
            } else {
                v[g.r.below(v.len())]
            }
        };
        let has = |p: &str| labels.iter().any(|l| l.starts_with(p));
        let mut n = 0;
        if has("INVITE/ok") && words.len() >= 3 {
            // the invitee uses the invitation, leaves, and tries again (one admission only)
            if let Some(u) = self.m.users.get(&words[1]).cloned() {
                let ch = words[2].clone();
                if !self.exclude.contains(&u.conn) && self.r.chance(1, 4) {
                    // the channel vanishes before the invitation is used: everybody leaves, the invitee's JOIN creates it
                    // afresh (and uses the invitation up all the same); later it is made invite-only, the invitee
                    // leaves and tries again
                    let members: Vec<String> = self.m.chans.get(&ch).map(|c| c.members.keys().cloned().collect()).unwrap_or_default();
                    if members.len() <= 2 && !self.m.chans.get(&ch).map_or(false, |c| c.preconfigured) {
                        for m in &members {
                            if let Some(mu) = self.m.users.get(m).cloned() {
                                if !self.exclude.contains(&mu.conn) {
                                    n += self.say(mu.conn, &format!("PART {}", ch)) as usize;
                                }
                            }
                        }
                        n += self.say(u.conn, &format!("JOIN {}", ch)) as usize;
                        let o = other(self, Some(u.conn));
                        n += self.say(o, &format!("JOIN {}", ch)) as usize;
                        n += self.say(u.conn, &format!("MODE {} +i", ch)) as usize;
                        n += self.say(u.conn, &format!("PART {}", ch)) as usize;
                        n += self.say(u.conn, &format!("JOIN {}", ch)) as usize;
                    }
                } else if !self.exclude.contains(&u.conn) {
                    n += self.say(u.conn, &format!("JOIN {}", ch)) as usize;
                    if self.r.chance(1, 2) {
                        n += self.say(u.conn, &format!("PART {}", ch)) as usize;
                        n += self.say(u.conn, &format!("JOIN {}", ch)) as usize;
                    }
                }
            }
        } else if has("KICK/ok") && words.len() >= 3 {
            // the victim lost membership and rank
            let ch = words[1].clone();
            let victim = words[2].split(',').next().unwrap_or("").to_string();
            if let Some(u) = self.m.users.get(&victim).cloned() {
                if !self.exclude.contains(&u.conn) {
                    n += self.say(u.conn, &format!("JOIN {}", ch)) as usize;
                    n += self.say(u.conn, &format!("NAMES {}", ch)) as usize;
                }
            }
        } else if has("NICK/changed") && words.len() >= 2 {
            let newn = words[1].clone();
            let oldn = lc.and_then(|_| self.m.history.keys().last().cloned()).unwrap_or_default();
            let o = other(self, lc);
            let chans: Vec<String> = self.m.users.get(&newn).map(|u| u.chans.iter().cloned().collect()).unwrap_or_default();
            match self.r.below(6) {
                0 => n += self.say(o, &format!("WHOIS {}", newn)) as usize,
                1 => {
                    if let Some(ch) = chans.first() {
                        n += self.say(o, &format!("NAMES {}", ch)) as usize;
                        if let Some(c) = lc {
                            n += self.say(c, &format!("MODE {}", ch)) as usize;
                        }
                    }
                }
                2 => n += self.say(o, &format!("PRIVMSG {} :to the new name", newn)) as usize,
                3 => {
                    n += self.say(o, &format!("WHOWAS {}", oldn)) as usize;
                    n += self.say(o, &format!("ISON {} {}", oldn, newn)) as usize;
                }
                4 => {
                    if let Some(c) = lc {
                        n += self.say(c, &format!("MODE {}", newn)) as usize;
                    }
                    n += self.say(o, &format!("USERHOST {}", newn)) as usize;
                }
                _ => {
                    // somebody else takes the old name at once
                    let un = self.unregistered_conns();
                    if let Some(&c) = un.first() {
                        self.register(c, &oldn, &format!("u{}", c));
                        n += 1;
                    } else {
                        n += self.say(o, &format!("NICK {}", oldn)) as usize;
                    }
                }
            }
        } else if labels.iter().any(|l| l.starts_with("MODE/+k") || l.starts_with("MODE/+l") || l.starts_with("MODE/+b") || l.starts_with("MODE/+i") || l.starts_with("MODE/-") || l.starts_with("MODE/+e") || l.starts_with("MODE/+I")) && words.len() >= 2 {
            // the new state is enforced / shown
            let ch = words[1].clone();
            let outsiders: Vec<usize> = regs.iter().copied().filter(|c| self.m.conns[*c].nick.as_ref().map_or(false, |n| !self.m.chans.get(&ch).map_or(false, |x| x.members.contains_key(n)))).collect();
            match self.r.below(4) {
                0 | 1 if !outsiders.is_empty() => {
                    let o = outsiders[self.r.below(outsiders.len())];
                    let key = self.m.chans.get(&ch).and_then(|c| c.key.clone());
                    let l = match key {
                        Some(k) if self.r.chance(2, 3) => format!("JOIN {} {}", ch, k),
                        _ => format!("JOIN {}", ch),
                    };
                    n += self.say(o, &l) as usize;
                }
                2 => {
                    if let Some(c) = lc {
                        n += self.say(c, &format!("MODE {}", ch)) as usize;
                    }
                }
                _ => {
                    let o = other(self, None);
                    let t = self.text();
                    n += self.say(o, &format!("PRIVMSG {} :{}", ch, t)) as usize;
                }
            }
        } else if labels.iter().any(|l| l.starts_with("MODE/+m") || l.starts_with("MODE/+n") || l.starts_with("MODE/+s") || l.starts_with("MODE/+t") || l.starts_with("MODE/+v") || l.starts_with("MODE/+o") || l.starts_with("MODE/+h") || l.starts_with("MODE/+q") || l.starts_with("MODE/+a")) && words.len() >= 2 {
            let ch = words[1].clone();
            let o = other(self, None);
            let t = self.text();
            match self.r.below(5) {
                0 => n += self.say(o, &format!("PRIVMSG {} :{}", ch, t)) as usize,
                1 => n += self.say(o, &format!("TOPIC {} :{}", ch, t)) as usize,
                2 => n += self.say(o, &format!("NAMES {}", ch)) as usize,
                3 => n += self.say(o, &format!("WHO {}", ch)) as usize,
                _ => n += self.say(o, &format!("LIST {}", ch)) as usize,
            }
        } else if has("TOPIC/set/ok") && words.len() >= 2 {
            let ch = words[1].clone();
            let o = other(self, lc);
            match self.r.below(3) {
                0 => n += self.say(o, &format!("LIST {}", ch)) as usize,
                1 => n += self.say(o, &format!("TOPIC {}", ch)) as usize,
                _ => n += self.say(o, &format!("JOIN {}", ch)) as usize,
            }
        } else if labels.iter().any(|l| l.starts_with("PART/ok/last") || l.starts_with("end/")) {
            // a channel may just have vanished / a user is gone: look, and re-create
            let o = other(self, lc);
            match self.r.below(5) {
                0 => n += self.say(o, "LIST") as usize,
                1 => n += self.say(o, "LUSERS") as usize,
                2 => n += self.say(o, "NAMES") as usize,
                3 => {
                    let ch = if words.len() >= 2 && words[0].eq_ignore_ascii_case("PART") { words[1].split(',').next().unwrap_or("#a").to_string() } else { self.pick_chan_pool() };
                    n += self.say(o, &format!("JOIN {}", ch)) as usize;
                    n += self.say(o, &format!("MODE {}", ch)) as usize;
                    n += self.say(o, &format!("TOPIC {}", ch)) as usize;
                }
                _ => {
                    let hist: Vec<String> = self.m.history.keys().cloned().collect();
                    if let Some(h) = hist.last() {
                        n += self.say(o, &format!("WHOWAS {}", h)) as usize;
                        n += self.say(o, &format!("ISON {}", h)) as usize;
                    }
                }
            }
        } else if has("OPER/ok") {
            if let Some(c) = lc {
                let me = self.nick_of(c);
                let o = other(self, lc);
                match self.r.below(4) {
                    0 => n += self.say(o, &format!("WHOIS {}", me)) as usize,
                    1 => n += self.say(c, &format!("MODE {}", me)) as usize,
                    2 => n += self.say(o, &format!("USERHOST {}", me)) as usize,
                    _ => n += self.say(c, "LUSERS") as usize,
                }
            }
        } else if line.starts_with("AWAY") {
            if let Some(c) = lc {
                let me = self.nick_of(c);
                let o = other(self, lc);
                n += self.say(o, &format!("PRIVMSG {} :are you there", me)) as usize;
                n += self.say(o, &format!("USERHOST {}", me)) as usize;
            }
        } else if has("UMODE/changed") {
            if let Some(c) = lc {
                let me = self.nick_of(c);
                let o = other(self, lc);
                match self.r.below(3) {
                    0 => n += self.say(o, "LUSERS") as usize,
                    1 => n += self.say(o, &format!("WHOIS {}", me)) as usize,
                    _ => n += self.say(o, &format!("WHO {}", me)) as usize,
                }
            }
        }
        n
    }

    pub(crate) fn step(&mut self, kind: K) -> bool {
        let regs = self.registered_conns();
        let need_reg = !matches!(kind, K::Register | K::RegPiece | K::CompletionCollision | K::NewConn | K::Gated | K::CapStuff | K::Eof | K::Reset | K::EofMidLine);
        if need_reg && regs.is_empty() {
            return false;
        }
        let c = if regs.is_empty() { 0 } else { regs[self.r.below(regs.len())] };
        let me = if regs.is_empty() { String::new() } else { self.nick_of(c) };
        match kind {
            K::NewConn => {
                if self.m.conns.len() >= self.n_conns_target + 2 {
                    return false;
                }
                self.open_conn();
                true
            }
            K::Register => {
                let un = self.unregistered_conns();
                let c = if un.is_empty() {
                    if self.m.conns.len() >= self.n_conns_target + 2 {
                        return false;
                    }
                    let c = self.open_conn();
                    if !self.m.conns[c].alive {
                        return true;
                    }
                    c
                } else {
                    un[self.r.below(un.len())]
                };
                let nick = if self.r.chance(1, 5) { self.pick_user() } else { self.free_nick() };
                let user = format!("u{}", c);
                self.register(c, &nick, &user);
                true
            }
            K::CompletionCollision => {
                // A claims a nick without finishing; B registers that nick; A finishes (433 at completion) and
                // then keeps trying with other names/nicks/passwords
                if self.m.conns.len() + 2 > self.n_conns_target + 4 {
                    return false;
                }
                let a = self.open_conn();
                let b = self.open_conn();
                if !self.m.conns[a].alive || !self.m.conns[b].alive {
                    return true;
                }
                let x = self.free_nick();
                let cfgnames: Vec<String> = self.m.cfg.users.iter().map(|u| u.name.clone()).collect();
                let mut pws: Vec<String> = vec!["wrongpw".to_string()];
                if let Some(p) = self.m.cfg.password.clone() {
                    pws.push(p.clone());
                    pws.push(p);
                }
                for u in &self.m.cfg.users {
                    if let Some(p) = &u.password {
                        pws.push(p.clone());
                    }
                }
                if self.m.cfg.password.is_some() || self.r.chance(1, 3) {
                    let pw = pws[self.r.below(pws.len())].clone();
                    self.say(a, &format!("PASS {}", pw));
                }
                self.say(a, &format!("NICK {}", x));
                self.register(b, &x, &format!("u{}", b));
                if self.r.chance(1, 5) {
                    // the loser's peer is already gone for writing: its refusal cannot be delivered
                    self.emit(vec![Action::BreakWrites { c: a }]);
                }
                let n = self.r.range(2, 5);
                for _ in 0..n {
                    if !self.m.conns[a].alive || self.m.conns[a].registered {
                        break;
                    }
                    let line = match self.r.below(8) {
                        0..=2 => format!("USER u{} 0 * :R", a),
                        3 | 4 if !cfgnames.is_empty() => format!("USER {} 0 * :R", cfgnames[self.r.below(cfgnames.len())]),
                        5 => format!("NICK {}", self.free_nick()),
                        6 => format!("PASS {}", pws[self.r.below(pws.len())]),
                        _ => "USER guest 0 * :R".to_string(),
                    };
                    self.say(a, &line);
                }
                // whoever A now is (or is not), B must still be x and A must be gated if unregistered
                self.say(a, &format!("PRIVMSG {} :am I in?", x));
                self.say(b, "PING stillme");
                true
            }
            K::RegPiece => {
                // one registration command on some unregistered connection: interleaves registrations
                let un = self.unregistered_conns();
                let c = if un.is_empty() || (un.len() < 3 && self.r.chance(1, 4)) {
                    if self.m.conns.len() >= self.n_conns_target + 3 {
                        return false;
                    }
                    let c = self.open_conn();
                    if !self.m.conns[c].alive {
                        return true;
                    }
                    c
                } else {
                    un[self.r.below(un.len())]
                };
                let cfgpass = self.m.cfg.password.clone();
                if self.r.chance(1, 25) {
                    self.emit(vec![Action::BreakWrites { c }]);
                }
                let line = match self.r.below(10) {
                    0..=3 => format!("NICK {}", self.pick_nick_pool()),
                    4..=6 => {
                        // own name, a configured user's name, or a plain other name
                        let cfgnames: Vec<String> = self.m.cfg.users.iter().map(|u| u.name.clone()).collect();
                        let name = match self.r.below(5) {
                            0 if !cfgnames.is_empty() => cfgnames[self.r.below(cfgnames.len())].clone(),
                            1 => "guest".to_string(),
                            _ => format!("u{}", c),
                        };
                        format!("USER {} 0 * :Real {}", name, c)
                    }
                    7 => {
                        let mut pws: Vec<String> = vec!["wrongpw".to_string()];
                        if let Some(p) = cfgpass {
                            pws.push(p.clone());
                            pws.push(p.clone());
                            // neighbours of the right password: padded with blanks (as a trailing parameter), other case
                            pws.push(format!(":{} ", p));
                            pws.push(format!(": {}", p));
                            pws.push(format!(":{}\t", p));
                            pws.push(p.to_uppercase());
                        }
                        for u in &self.m.cfg.users {
                            if let Some(p) = &u.password {
                                pws.push(p.clone());
                                pws.push(format!(":{} ", p));
                            }
                        }
                        format!("PASS {}", pws[self.r.below(pws.len())])
                    }
                    8 => "CAP LS 302".to_string(),
                    _ => "CAP END".to_string(),
                };
                self.say(c, &line)
            }
            K::Join => {
                let ch = self.pick_chan();
                let key = self.m.chans.get(&ch).and_then(|c| c.key.clone());
                let line = match key {
                    Some(k) if self.r.chance(3, 4) => format!("JOIN {} {}", ch, k),
                    Some(_) if self.r.chance(1, 2) => format!("JOIN {} wrongkey", ch),
                    None if self.r.chance(1, 10) => format!("JOIN {} somekey", ch),
                    None if self.r.chance(1, 12) => format!("JOIN {} :", ch),
                    None if self.r.chance(1, 40) => "JOIN 0".to_string(),
                    _ => format!("JOIN {}", ch),
                };
                self.say(c, &line)
            }
            K::JoinMulti => {
                let n = self.r.range(2, 3);
                let mut chs: Vec<String> = vec![];
                for _ in 0..n {
                    let ch = self.pick_chan();
                    if !chs.contains(&ch) {
                        chs.push(ch);
                    }
                }
                if self.r.chance(1, 5) {
                    // the same channel named twice
                    let d = chs[self.r.below(chs.len())].clone();
                    chs.push(d);
                }
                let with_keys = self.r.chance(1, 2);
                let keys: Vec<String> = chs
                    .iter()
                    .map(|ch| match self.m.chans.get(ch).and_then(|c| c.key.clone()) {
                        Some(k) => k,
                        None => "x".to_string(),
                    })
                    .collect();
                // channels without a key may get an empty key (also in the last position: "k1,")
                let keys: Vec<String> = chs
                    .iter()
                    .zip(keys.into_iter())
                    .map(|(ch, k)| if self.m.chans.get(ch).and_then(|c| c.key.clone()).is_none() && self.r.chance(1, 3) { String::new() } else { k })
                    .collect();
                let line = if with_keys { format!("JOIN {} {}", chs.join(","), keys.join(",")) } else { format!("JOIN {}", chs.join(",")) };
                self.say(c, &line)
            }
            K::Part => {
                let ch = match self.pick_chan_of(&me) {
                    Some(ch) if self.r.chance(5, 6) => ch,
                    _ => self.pick_chan(),
                };
                let line = match self.r.below(5) {
                    0 => format!("PART {} :{}", ch, self.text()),
                    4 => format!("PART {} :", ch),
                    1 => {
                        let other = self.pick_chan();
                        if other != ch {
                            format!("PART {},{}", ch, other)
                        } else {
                            format!("PART {}", ch)
                        }
                    }
                    _ => format!("PART {}", ch),
                };
                self.say(c, &line)
            }
            K::Kick => {
                let ch = match self.pick_chan_of(&me) {
                    Some(ch) if self.r.chance(7, 8) => ch,
                    _ => self.pick_chan(),
                };
                let n = if self.r.chance(1, 4) { self.r.range(2, 3) } else { 1 };
                let mut vs: Vec<String> = vec![];
                for _ in 0..n {
                    let v = match self.pick_member(&ch) {
                        Some(v) if self.r.chance(6, 7) => v,
                        _ => self.pick_user(),
                    };
                    vs.push(v);
                }
                let line = match self.r.below(7) {
                    0..=2 => format!("KICK {} {} :{}", ch, vs.join(","), self.text()),
                    // an explicitly empty comment is a comment (relayed as given), not a missing one
                    3 => format!("KICK {} {} :", ch, vs.join(",")),
                    _ => format!("KICK {} {}", ch, vs.join(",")),
                };
                self.say(c, &line)
            }
            K::Topic => {
                let ch = match self.pick_chan_of(&me) {
                    Some(ch) if self.r.chance(6, 7) => ch,
                    _ => self.pick_chan(),
                };
                let line = match self.r.below(12) {
                    0 | 1 => format!("TOPIC {} :", ch),
                    // a topic of blanks only is a topic (not the empty topic that clears it)
                    2 => format!("TOPIC {} :{}", ch, ["   ", " ", "\t"][self.r.below(3)]),
                    // beyond the advertised TOPICLEN (the server accepts it): what is announced is what is kept
                    3 if self.r.chance(1, 3) => format!("TOPIC {} :{}{}", ch, self.text(), "T".repeat(self.r.range(990, 1500))),
                    _ => format!("TOPIC {} :{}", ch, self.text()),
                };
                self.say(c, &line)
            }
            K::TopicQuery => {
                let ch = self.pick_chan();
                self.say(c, &format!("TOPIC {}", ch))
            }
            K::Invite => {
                let ch = match self.pick_chan_of(&me) {
                    Some(ch) if self.r.chance(6, 7) => ch,
                    _ => self.pick_chan(),
                };
                let t = self.pick_user();
                self.say(c, &format!("INVITE {} {}", t, ch))
            }
            K::Names => {
                let line = match self.r.below(6) {
                    0 => "NAMES".to_string(),
                    1 => {
                        let a = self.pick_chan();
                        let b = self.pick_chan();
                        format!("NAMES {},{}", a, b)
                    }
                    _ => format!("NAMES {}", self.pick_chan()),
                };
                self.say(c, &line)
            }
            K::List => {
                let line = match self.r.below(3) {
                    0 => "LIST".to_string(),
                    1 => format!("LIST {}", self.pick_chan()),
                    _ => {
                        let a = self.pick_chan();
                        let b = self.pick_chan_pool();
                        format!("LIST {},{}", a, b)
                    }
                };
                self.say(c, &line)
            }
            K::ModeQuery => {
                let ch = match self.pick_chan_of(&me) {
                    Some(ch) if self.r.chance(4, 5) => ch,
                    _ => self.pick_chan(),
                };
                self.say(c, &format!("MODE {}", ch))
            }
            K::ModeList => {
                let ch = match self.pick_chan_of(&me) {
                    Some(ch) if self.r.chance(4, 5) => ch,
                    _ => self.pick_chan(),
                };
                let l = ["+b", "+e", "+I", "b"][self.r.below(3)];
                self.say(c, &format!("MODE {} {}", ch, l))
            }
            K::ModeChan => {
                let ch = match self.pick_chan_of(&me) {
                    Some(ch) if self.r.chance(9, 10) => ch,
                    _ => self.pick_chan(),
                };
                if self.r.chance(1, 14) {
                    // malformed mode changes: rejected as a whole (696 / 472), nothing executed - also when a valid letter precedes
                    let who = self.pick_member(&ch).unwrap_or_else(|| "ann".to_string());
                    let l = match self.r.below(14) {
                        0 => format!("MODE {} +o", ch),
                        1 => format!("MODE {} +v-o {}", ch, who),
                        2 => format!("MODE {} +l", ch),
                        3 => format!("MODE {} +l abc", ch),
                        4 => format!("MODE {} +l -5", ch),
                        5 => format!("MODE {} +k", ch),
                        6 => format!("MODE {} +z", ch),
                        7 => format!("MODE {} +iz", ch),
                        8 => format!("MODE {} +o a.b", ch),
                        9 => format!("MODE {} +mo", ch),
                        10 => format!("MODE {} -t+x", ch),
                        11 => format!("MODE {} +t +l x", ch),
                        12 => format!("MODE {} +b *!*@* +q", ch),
                        _ => format!("MODE {} +il 99999999999999999999999", ch),
                    };
                    return self.say(c, &l);
                }
                let nletters = if self.r.chance(1, 3) { self.r.range(2, 4) } else { 1 };
                let mut ms = String::new();
                let mut args: Vec<String> = vec![];
                let mut sign = ' ';
                for _ in 0..nletters {
                    let set = self.r.chance(3, 5);
                    let s = if set { '+' } else { '-' };
                    if s != sign {
                        ms.push(s);
                        sign = s;
                    }
                    let letters = ['q', 'a', 'o', 'h', 'v', 'o', 'h', 'v', 'b', 'e', 'I', 'k', 'l', 'i', 'm', 't', 'n', 's', 'b', 'i', 'm'];
                    let l = letters[self.r.below(letters.len())];
                    ms.push(l);
                    match l {
                        'q' | 'a' | 'o' | 'h' | 'v' => {
                            let t = match self.pick_member(&ch) {
                                Some(v) if self.r.chance(8, 9) => v,
                                _ => self.pick_user(),
                            };
                            args.push(t);
                        }
                        'b' | 'e' | 'I' => {
                            // when unsetting prefer an existing mask
                            let existing: Vec<String> = self
                                .m
                                .chans
                                .get(&ch)
                                .map(|c| match l {
                                    'b' => c.ban.iter().cloned().collect(),
                                    'e' => c.exc.iter().cloned().collect(),
                                    _ => c.invex.iter().cloned().collect(),
                                })
                                .unwrap_or_default();
                            if !set && !existing.is_empty() && self.r.chance(4, 5) {
                                let m = existing[self.r.below(existing.len())].clone();
                                args.push(if self.r.chance(1, 3) { shorten_mask(&m) } else { m });
                            } else {
                                let m = self.mask();
                                args.push(m);
                            }
                        }
                        'k' => {
                            if set {
                                args.push(["key", "k2", "sesame"][self.r.below(3)].to_string());
                            }
                        }
                        'l' => {
                            if set {
                                let members = self.m.chans.get(&ch).map_or(1, |c| c.members.len());
                                let v = match self.r.below(4) {
                                    0 => members,
                                    1 => members + 1,
                                    2 => members.saturating_sub(1),
                                    _ => self.r.range(1, 9),
                                };
                                args.push(v.to_string());
                            }
                        }
                        _ => {}
                    }
                }
                // occasionally split into several groups: "+o bob -v cat" instead of "+o-v bob cat"
                let mut line = if args.is_empty() { format!("MODE {} {}", ch, ms) } else { format!("MODE {} {} {}", ch, ms, args.join(" ")) };
                if nletters > 1 && self.r.chance(1, 3) {
                    let mut groups: Vec<String> = vec![];
                    let mut ai = 0;
                    let mut sign = '+';
                    for chh in ms.chars() {
                        if chh == '+' || chh == '-' {
                            sign = chh;
                            continue;
                        }
                        let takes = matches!(chh, 'q' | 'a' | 'o' | 'h' | 'v' | 'b' | 'e' | 'I') || ((chh == 'k' || chh == 'l') && sign == '+');
                        if takes && ai < args.len() {
                            groups.push(format!("{}{} {}", sign, chh, args[ai]));
                            ai += 1;
                        } else {
                            groups.push(format!("{}{}", sign, chh));
                        }
                    }
                    line = format!("MODE {} {}", ch, groups.join(" "));
                }
                self.say(c, &line)
            }
            K::ModeMask => {
                let ch = match self.pick_chan_of(&me) {
                    Some(ch) if self.r.chance(9, 10) => ch,
                    _ => self.pick_chan(),
                };
                let l = ['b', 'b', 'e', 'I'][self.r.below(4)];
                let set = self.r.chance(3, 4);
                let existing: Vec<String> = self
                    .m
                    .chans
                    .get(&ch)
                    .map(|c| match l {
                        'b' => c.ban.iter().cloned().collect(),
                        'e' => c.exc.iter().cloned().collect(),
                        _ => c.invex.iter().cloned().collect(),
                    })
                    .unwrap_or_default();
                let mask = if !set && !existing.is_empty() {
                    let m = existing[self.r.below(existing.len())].clone();
                    // sometimes the short form that is completed to the stored mask (nick, nick@host, nick!user)
                    if self.r.chance(1, 2) { shorten_mask(&m) } else { m }
                } else {
                    self.mask_adv(None)
                };
                let line = format!("MODE {} {}{} {}", ch, if set { '+' } else { '-' }, l, mask);
                self.say(c, &line)
            }
            K::WhoMask => {
                let users: Vec<MUser> = self.m.users.values().cloned().collect();
                if users.is_empty() {
                    return false;
                }
                let u = users[self.r.below(users.len())].clone();
                if self.r.chance(1, 2) {
                    let base = match self.r.below(3) {
                        0 => u.nick.clone(),
                        1 => u.src(),
                        _ => u.real.replace(' ', "?"),
                    };
                    let mut m = self.mask_adv(Some(base));
                    if !m.contains('*') && !m.contains('?') {
                        m.push('*');
                    }
                    self.say(c, &format!("WHO {}", m))
                } else {
                    let mut m = self.mask_adv(Some(u.nick.clone()));
                    if !valid_name(&m) {
                        m = format!("{}*", u.nick);
                    }
                    self.say(c, &format!("WHOIS {}", m))
                }
            }
            K::ModeUser => {
                let target = if self.r.chance(5, 6) { me.clone() } else { self.pick_user() };
                if self.r.chance(1, 6) {
                    return self.say(c, &format!("MODE {}", target));
                }
                let n = self.r.range(1, 3);
                let mut ms = String::new();
                let mut sign = ' ';
                for _ in 0..n {
                    let s = if self.r.chance(1, 2) { '+' } else { '-' };
                    if s != sign {
                        ms.push(s);
                        sign = s;
                    }
                    ms.push(['i', 'w', 'o', 'O', 'r', 'i', 'w'][self.r.below(7)]);
                }
                self.say(c, &format!("MODE {} {}", target, ms))
            }
            K::Privmsg | K::Notice => {
                let verb = if kind == K::Privmsg { "PRIVMSG" } else { "NOTICE" };
                let n = if self.r.chance(1, 3) { self.r.range(2, 4) } else { 1 };
                let mut ts: Vec<String> = vec![];
                for _ in 0..n {
                    let t = match self.r.below(10) {
                        0..=3 => match self.pick_chan_of(&me) {
                            Some(ch) => ch,
                            None => self.pick_chan(),
                        },
                        4 => self.pick_chan(),
                        5 => {
                            let ch = self.pick_chan();
                            format!("{}{}", ["@", "+", "%", "~", "&"][self.r.below(5)], ch)
                        }
                        6 => {
                            if !ts.is_empty() {
                                ts[self.r.below(ts.len())].clone()
                            } else {
                                self.pick_user()
                            }
                        }
                        _ => self.pick_user(),
                    };
                    ts.push(t);
                }
                let mut text = self.text();
                if self.r.chance(1, 80) {
                    // around the codec's line limit (2000 bytes before the line feed, the CR included)
                    let head = format!("{} {} :{}", verb, ts.join(","), text).len() + 1;
                    let want = [1998usize, 1999, 2000, 2001, 2002, 2100][self.r.below(6)];
                    if want > head {
                        text.push_str(&"p".repeat(want - head));
                    }
                }
                self.say(c, &format!("{} {} :{}", verb, ts.join(","), text))
            }
            K::Who => {
                let arg = match self.r.below(5) {
                    0 => "*".to_string(),
                    1 => self.mask().replace("!*@*", "*"),
                    2 => self.pick_user(),
                    _ => self.pick_chan(),
                };
                self.say(c, &format!("WHO {}", arg))
            }
            K::Whois => {
                let arg = match self.r.below(6) {
                    0 => {
                        let a = self.pick_user();
                        let b = self.pick_user();
                        format!("{},{}", a, b)
                    }
                    1 => "*".to_string(),
                    2 => {
                        let u = self.pick_user();
                        format!("{}*", u.chars().take(1).collect::<String>())
                    }
                    _ => self.pick_user(),
                };
                self.say(c, &format!("WHOIS {}", arg))
            }
            K::Whowas => {
                let hist: Vec<String> = self.m.history.keys().cloned().collect();
                let n = if !hist.is_empty() && self.r.chance(3, 4) { hist[self.r.below(hist.len())].clone() } else { self.pick_nick_pool() };
                let line = match self.r.below(10) {
                    0 => format!("WHOWAS {} 0", n),
                    1 => format!("WHOWAS {} 1", n),
                    2 => format!("WHOWAS {} {}", n, self.r.range(2, 20)),
                    3 => match self.r.below(4) {
                        0 => format!("WHOWAS {} x", n),
                        1 => format!("WHOWAS {} -1", n),
                        2 => format!("WHOWAS {} 1 other.srv", n),
                        _ => format!("WHOWAS {} 99999999999999999999999", n),
                    },
                    _ => format!("WHOWAS {}", n),
                };
                self.say(c, &line)
            }
            K::Oper => {
                let ops = self.m.cfg.operators.clone();
                let line = if ops.is_empty() || self.r.chance(1, 6) {
                    format!("OPER {} whatever", self.pick_nick_pool())
                } else {
                    let o = ops[self.r.below(ops.len())].clone();
                    if self.r.chance(3, 4) {
                        format!("OPER {} {}", o.name, o.password)
                    } else {
                        format!("OPER {} {}x", o.name, o.password)
                    }
                };
                self.say(c, &line)
            }
            K::Kill => {
                let t = self.pick_user();
                let text = self.text();
                self.say(c, &format!("KILL {} :{}", t, text))
            }
            K::Die => {
                let line = if self.r.chance(1, 2) { "DIE".to_string() } else { format!("SQUIT {} :bye", self.m.cfg.name) };
                let is_oper = self.m.users.get(&me).map_or(false, |u| u.modes.o);
                if is_oper && self.r.chance(1, 2) {
                    // one or two KILLs and the DIE in one segment: users that are already being disconnected are still in
                    // the server's tables when DIE goes through them - every session must end all the same
                    let mut acts = vec![];
                    let others: Vec<String> = self.m.users.keys().filter(|n| **n != me).cloned().collect();
                    let mut victims: Vec<String> = vec![];
                    for _ in 0..self.r.range(1, 2) {
                        if !others.is_empty() {
                            let v = others[self.r.below(others.len())].clone();
                            // (distinct victims: what a second KILL of a user who is still being disconnected answers is not specified)
                            if !victims.contains(&v) {
                                acts.push(Action::line(c, &format!("KILL {} :before the end", v)));
                                victims.push(v);
                            }
                        }
                    }
                    acts.push(Action::line(c, &line));
                    return self.emit(acts);
                }
                self.say(c, &line)
            }
            K::Wallops => {
                let text = self.text();
                self.say(c, &format!("WALLOPS :{}", text))
            }
            K::Stats => {
                let q = ['u', 'm', 'o', 'l'][self.r.below(4)];
                self.say(c, &format!("STATS {}", q))
            }
            K::ReReg => {
                // a registered connection repeats registration commands: refused (462) and nothing about it changes
                let cfgnames: Vec<String> = self.m.cfg.users.iter().map(|u| u.name.clone()).collect();
                let other_user = self.m.users.values().find(|u| u.nick != me).map(|u| u.user.trim_start_matches('~').to_string());
                let line = match self.r.below(6) {
                    0 => "USER spoof 0 * :Spoofed Name".to_string(),
                    1 if other_user.is_some() => format!("USER {} 0 * :R", other_user.unwrap()),
                    2 if !cfgnames.is_empty() => format!("USER {} 0 * :R", cfgnames[self.r.below(cfgnames.len())]),
                    3 => format!("PASS {}", self.m.cfg.password.clone().unwrap_or_else(|| "whatever".into())),
                    4 => "USER".to_string(),
                    _ => "USER other 0 * :Other".to_string(),
                };
                let mut ok = self.say(c, &line);
                // ... and it still speaks and shows as itself
                let t = self.text();
                let target = match self.pick_chan_of(&me) {
                    Some(ch) if self.r.chance(2, 3) => ch,
                    _ => self.pick_user(),
                };
                let verb = if self.r.chance(3, 4) { "PRIVMSG" } else { "NOTICE" };
                ok |= self.say(c, &format!("{} {} :{}", verb, target, t));
                let regs2 = self.registered_conns();
                if !regs2.is_empty() {
                    let o = regs2[self.r.below(regs2.len())];
                    let l = match self.r.below(3) {
                        0 => format!("WHOIS {}", me),
                        1 => format!("WHO {}", me),
                        _ => format!("USERHOST {}", me),
                    };
                    ok |= self.say(o, &l);
                }
                ok
            }
            K::BanExcept => {
                // a ban, some exceptions (matching the victim or not), perhaps taken away again - then the victim and
                // a bystander try to join / speak: exactly the announced lists are enforced
                let ch = match self.pick_chan_of(&me) {
                    Some(ch) => ch,
                    None => return false,
                };
                let users: Vec<MUser> = self.m.users.values().filter(|u| u.nick != me).cloned().collect();
                if users.is_empty() {
                    return false;
                }
                let v = users[self.r.below(users.len())].clone();
                let by = users[self.r.below(users.len())].clone();
                let ban = match self.r.below(4) {
                    0 => "*!*@*".to_string(),
                    1 => format!("{}!*@*", v.nick),
                    2 => format!("*!{}@*", v.user),
                    _ => v.src(),
                };
                let mut ok = self.say(c, &format!("MODE {} +b {}", ch, ban));
                let nexc = self.r.below(4);
                let mut added: Vec<String> = vec![];
                for _ in 0..nexc {
                    let e = match self.r.below(6) {
                        0 => v.nick.clone(),
                        1 => format!("{}!*@*", v.nick),
                        2 => format!("*!{}@*", v.user),
                        3 => format!("{}!*@*", by.nick),
                        4 => "nobody!*@*".to_string(),
                        _ => "*!*@10.20.30.*".to_string(),
                    };
                    ok |= self.say(c, &format!("MODE {} +e {}", ch, e));
                    added.push(e);
                }
                let existing: Vec<String> = self.m.chans.get(&ch).map(|x| x.exc.iter().cloned().collect()).unwrap_or_default();
                if !existing.is_empty() && self.r.chance(1, 2) {
                    // take some (or all) exceptions away again
                    let all = self.r.chance(1, 2);
                    for e in existing.iter() {
                        if all || self.r.chance(1, 2) {
                            ok |= self.say(c, &format!("MODE {} -e {}", ch, e));
                        }
                    }
                }
                for u in [&v, &by] {
                    let uc = u.conn;
                    if !self.m.conns.get(uc).map_or(false, |x| x.alive && !x.deaf) {
                        continue;
                    }
                    let member = self.m.chans.get(&ch).map_or(false, |x| x.members.contains_key(&u.nick));
                    let t = self.text();
                    if member || self.r.chance(1, 3) {
                        ok |= self.say(uc, &format!("PRIVMSG {} :{}", ch, t));
                    } else {
                        let key = self.m.chans.get(&ch).and_then(|x| x.key.clone());
                        ok |= self.say(uc, &match key {
                            Some(k) => format!("JOIN {} {}", ch, k),
                            None => format!("JOIN {}", ch),
                        });
                    }
                }
                if self.r.chance(1, 3) {
                    ok |= self.say(c, &format!("MODE {} +e", ch));
                    ok |= self.say(c, &format!("MODE {} +b", ch));
                }
                ok
            }
            K::Away => {
                let line = match self.r.below(7) {
                    0 | 1 => "AWAY".to_string(),
                    2 => "AWAY :".to_string(),
                    _ => format!("AWAY :{}", self.text()),
                };
                self.say(c, &line)
            }
            K::Ison => {
                let n = if self.r.chance(1, 12) { self.r.range(21, 27) } else { self.r.range(1, 4) };
                let v: Vec<String> = (0..n).map(|_| self.pick_user()).collect();
                self.say(c, &format!("ISON {}", v.join(" ")))
            }
            K::Userhost => {
                let n = self.r.range(1, 3);
                let v: Vec<String> = (0..n).map(|_| self.pick_user()).collect();
                self.say(c, &format!("USERHOST {}", v.join(" ")))
            }
            K::Lusers => self.say(c, "LUSERS"),
            K::Motd => {
                let l = ["MOTD", "ADMIN"][self.r.below(2)];
                self.say(c, l)
            }
            K::Opaque => {
                let l = ["VERSION", "TIME", "INFO", "HELP", "HELP COMMANDS", "LINKS", "CONNECT other.srv 6667", "REHASH", "RESTART", "VERSION other.srv", "TIME other.srv", "HELP nosuchtopic", "MOTD other.srv", "ADMIN other.srv", "LIST #a other.srv", "WHOIS other.srv ann", "WHOIS irc.sim bob", "STATS u other.srv", "LUSERS * other.srv", "INFO other.srv", "LINKS other.srv *", "jo\u{131}n #a", "name\u{17f}", "pa\u{df} x", "l\u{131}st"][self.r.below(25)];
                self.say(c, l)
            }
            K::Nick => {
                let n = match self.r.below(8) {
                    0 => me.clone(),
                    1 | 2 => self.pick_user(),
                    3 => ["bad.nick", "#chan", "a,b", ".luke", ",luke", "::luke", "lu:ke", "luke.", "&amp", "l,"][self.r.below(10)].to_string(),
                    _ => self.free_nick(),
                };
                self.say(c, &format!("NICK {}", n))
            }
            K::Ping => {
                self.uniq += 1;
                let tok = format!("tok{}", self.uniq);
                let line = match self.r.below(6) {
                    0 => format!("PING {} {}", tok, self.m.cfg.name),
                    1 => format!("PING {} :other server", tok),
                    2 => format!("PING :{} with blanks", tok),
                    _ => format!("PING {}", tok),
                };
                self.say(c, &line)
            }
            K::Quit => {
                let line = if self.r.chance(1, 2) { "QUIT".to_string() } else { format!("QUIT :{}", self.text()) };
                self.say(c, &line)
            }
            K::Eof => {
                let all: Vec<usize> = (0..self.m.conns.len()).filter(|&c| self.m.conns[c].alive && !self.exclude.contains(&c)).collect();
                if all.is_empty() {
                    return false;
                }
                let c = all[self.r.below(all.len())];
                self.emit(vec![Action::CloseWrite { c }])
            }
            K::EofMidLine => {
                // a partial command followed by EOF: the codec hands the partial line over as a last command
                let partial = match self.r.below(4) {
                    0 => format!("PRIVMSG {} :{}", self.pick_user(), self.text()),
                    1 => format!("JOIN {}", self.pick_chan()),
                    2 => "PRIVM".to_string(),
                    _ => format!("PART {}", self.pick_chan()),
                };
                let mut d = partial.into_bytes();
                if self.r.chance(1, 2) {
                    d.push(b'\r');
                }
                self.emit(vec![Action::Send { c, d: esc(&d) }, Action::CloseWrite { c }])
            }
            K::Reset => {
                let all: Vec<usize> = (0..self.m.conns.len()).filter(|&c| self.m.conns[c].alive && !self.exclude.contains(&c)).collect();
                if all.is_empty() {
                    return false;
                }
                let c = all[self.r.below(all.len())];
                self.emit(vec![Action::Reset { c }])
            }
            K::HalfOpen => self.emit(vec![Action::BreakWrites { c }]),
            K::SlowPeer => {
                // one peer reads through a bounded window (or not at all) while others go on with ordinary commands, some of
                // them aimed at it (KICK, INVITE, messages, renames of co-members); then it drains. Everybody else is judged
                // step by step, the slow peer's backlog once at the end.
                let regs = self.registered_conns();
                if regs.len() < 3 {
                    return false;
                }
                let sl = regs[self.r.below(regs.len())];
                let sn = self.nick_of(sl);
                self.mark(&format!("slow:on:{}", sl));
                let n = [0usize, 0, 1, 17, 60, 200][self.r.below(6)];
                self.actions.push(Action::Window { c: sl, n });
                self.exclude.push(sl);
                let saved_follow = self.follow_rate;
                self.follow_rate = (0, 1);
                let kinds = [K::Join, K::Part, K::Kick, K::Nick, K::Topic, K::Invite, K::Privmsg, K::Notice, K::Names, K::Who, K::Away, K::JoinMulti, K::Whois, K::TopicQuery];
                let steps = self.r.range(3, 9);
                let mut done = 0;
                for _ in 0..steps * 3 {
                    if done >= steps {
                        break;
                    }
                    let others: Vec<usize> = self.registered_conns();
                    if others.is_empty() {
                        break;
                    }
                    let ok = if self.r.chance(1, 3) {
                        // aimed at the slow peer
                        let o = others[self.r.below(others.len())];
                        let on = self.nick_of(o);
                        let ch = self.pick_chan_of(&sn).or_else(|| self.pick_chan_of(&on)).unwrap_or_else(|| "#a".to_string());
                        let t = self.text();
                        let line = match self.r.below(5) {
                            0 => format!("KICK {} {} :slow", ch, sn),
                            1 => format!("INVITE {} {}", sn, ch),
                            2 => format!("PRIVMSG {} :{}", sn, t),
                            3 => format!("NOTICE {},{} :{}", ch, sn, t),
                            _ => format!("TOPIC {} :{}", ch, t),
                        };
                        self.say(o, &line)
                    } else {
                        let k = kinds[self.r.below(kinds.len())];
                        self.step(k)
                    };
                    if ok {
                        done += 1;
                    }
                    if self.r.chance(1, 4) {
                        let g = [1usize, 30, 100, 500][self.r.below(4)];
                        self.actions.push(Action::Grant { c: sl, n: g });
                        self.actions.push(Action::Settle);
                    }
                }
                self.follow_rate = saved_follow;
                self.exclude.retain(|x| *x != sl);
                self.actions.push(Action::Window { c: sl, n: usize::MAX });
                self.actions.push(Action::Settle);
                self.mark("slow:off");
                self.actions.push(Action::Settle);
                done > 0
            }
            K::Backpressure => {
                // one or two receivers stop/limit reading while others talk; then they drain in a seeded order
                let regs = self.registered_conns();
                if regs.len() < 3 {
                    return false;
                }
                let mut slow: Vec<usize> = vec![];
                let nslow = self.r.range(1, 2);
                for _ in 0..nslow {
                    let x = regs[self.r.below(regs.len())];
                    if !slow.contains(&x) {
                        slow.push(x);
                    }
                }
                let talkers: Vec<usize> = regs.iter().copied().filter(|x| !slow.contains(x)).collect();
                if talkers.is_empty() {
                    return false;
                }
                self.mark("defer:on");
                for &sl in &slow {
                    let n = [0usize, 0, 1, 17, 60, 200][self.r.below(6)];
                    self.actions.push(Action::Window { c: sl, n });
                }
                self.exclude.extend(slow.iter().copied());
                // sometimes a long backlog for one receiver (far more messages than any batch size a handler might use)
                let long = self.r.chance(1, 4);
                let nmsg = if long { self.r.range(18, 45) } else { self.r.range(3, 7) };
                for _ in 0..nmsg {
                    let t = talkers[self.r.below(talkers.len())];
                    let me = self.nick_of(t);
                    let target = match if long && self.r.chance(3, 4) { 0 } else { self.r.below(4) } {
                        0 => {
                            let i = self.r.below(slow.len());
                            self.nick_of(slow[i])
                        }
                        1 | 2 => match {
                            let sn = self.nick_of(slow[0]);
                            self.pick_chan_of(&sn)
                        } {
                            Some(ch) => ch,
                            None => self.nick_of(slow[0]),
                        },
                        _ => match self.pick_chan_of(&me) {
                            Some(ch) => ch,
                            None => self.pick_user(),
                        },
                    };
                    let verb = if self.r.chance(3, 4) { "PRIVMSG" } else { "NOTICE" };
                    let text = self.text();
                    self.say(t, &format!("{} {} :{}", verb, target, text));
                    if self.r.chance(1, 4) {
                        let sl = slow[self.r.below(slow.len())];
                        let n = [1usize, 30, 100, 500][self.r.below(4)];
                        self.actions.push(Action::Grant { c: sl, n });
                        self.actions.push(Action::Settle);
                    }
                }
                // drain in a seeded order, in seeded portions
                let mut order = slow.clone();
                if self.r.chance(1, 2) {
                    order.reverse();
                }
                for &sl in &order {
                    for _ in 0..self.r.range(0, 3) {
                        let n = [1usize, 7, 64, 300][self.r.below(4)];
                        self.actions.push(Action::Grant { c: sl, n });
                        self.actions.push(Action::Settle);
                    }
                    self.actions.push(Action::Window { c: sl, n: usize::MAX });
                    self.actions.push(Action::Settle);
                }
                self.actions.push(Action::Settle);
                self.mark("defer:off");
                self.actions.push(Action::Settle);
                self.exclude.retain(|x| !slow.contains(x));
                true
            }
            K::Gated => {
                let un = self.unregistered_conns();
                if un.is_empty() {
                    return false;
                }
                let c = un[self.r.below(un.len())];
                let target_nick = self.pick_user();
                let ch = self.pick_chan();
                let text = self.text();
                let lines = [
                    format!("PRIVMSG {} :{}", target_nick, text),
                    format!("PRIVMSG {} :{}", ch, text),
                    format!("JOIN {}", ch),
                    format!("NAMES {}", ch),
                    format!("WHOIS {}", target_nick),
                    format!("KICK {} {}", ch, target_nick),
                    format!("MODE {} +i", ch),
                    format!("TOPIC {} :{}", ch, text),
                    "LUSERS".to_string(),
                    format!("KILL {} :x", target_nick),
                    "LIST".to_string(),
                    format!("WHO {}", ch),
                    format!("OPER root rootpw"),
                    format!("ISON {}", target_nick),
                    "PING x".to_string(),
                    format!("INVITE {} {}", target_nick, ch),
                    "DIE".to_string(),
                    "AWAY :gone".to_string(),
                    format!("NOTICE {} :{}", target_nick, text),
                    "WALLOPS :hi".to_string(),
                ];
                let l = lines[self.r.below(lines.len())].clone();
                self.say(c, &l)
            }
            K::CapStuff => {
                let un = self.unregistered_conns();
                let c = if !un.is_empty() && self.r.chance(3, 4) { un[self.r.below(un.len())] } else { c };
                if !self.m.conns.get(c).map_or(false, |x| x.alive) {
                    return false;
                }
                let l = ["CAP LS", "CAP LS 302", "CAP LIST", "CAP REQ :multi-prefix", "CAP REQ :bogus", "CAP END", "AUTHENTICATE PLAIN", "CAP REQ :multi-prefix bogus", "PASS again", "USER again 0 * :Again", "CAP LS 301", "CAP", "PING"][self.r.below(13)];
                self.say(c, l)
            }
        }
    }
}
