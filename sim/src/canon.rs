// canon.rs - canonical form of a server->client line: only what the properties talk about is
// kept (R1: patterns, not texts), unordered groups are sorted (R2).

use crate::irc::{self, Line};

pub(crate) const SEP: &str = "\u{1f}";

/// parse a mode string + arguments (as in MODE announcements and 324) into atomic changes
/// like "+i", "-t", "+o bob", "+k key", "-k", "+l 5", "+b mask"
pub(crate) fn mode_changes(tokens: &[String], channel: bool) -> Vec<String> {
    let mut out = vec![];
    let mut i = 0;
    while i < tokens.len() {
        let ms = &tokens[i];
        i += 1;
        if !(ms.starts_with('+') || ms.starts_with('-')) {
            out.push(format!("?{}", ms));
            continue;
        }
        let mut set = true;
        // collect args that follow until next modestring
        for ch in ms.chars() {
            match ch {
                '+' => set = true,
                '-' => set = false,
                c => {
                    let takes_arg = channel
                        && match c {
                            'b' | 'e' | 'I' | 'o' | 'v' | 'h' | 'q' | 'a' => true,
                            'k' | 'l' => set,
                            _ => false,
                        };
                    let sign = if set { '+' } else { '-' };
                    if takes_arg {
                        if i < tokens.len() && !(tokens[i].starts_with('+') || tokens[i].starts_with('-')) {
                            out.push(format!("{}{} {}", sign, c, tokens[i]));
                            i += 1;
                        } else if i < tokens.len() && (c == 'b' || c == 'e' || c == 'I' || c == 'k') {
                            // masks/keys may begin with + or -
                            out.push(format!("{}{} {}", sign, c, tokens[i]));
                            i += 1;
                        } else {
                            out.push(format!("{}{} <missing>", sign, c));
                        }
                    } else {
                        out.push(format!("{}{}", sign, c));
                    }
                }
            }
        }
    }
    out
}

fn sorted_words(s: &str) -> String {
    let mut v: Vec<&str> = s.split(' ').filter(|w| !w.is_empty()).collect();
    v.sort();
    v.join(" ")
}

fn mid(l: &Line, from: usize) -> String {
    // middle params from index `from`, excluding a trailing free-text parameter
    let n = if l.had_trailing { l.params.len().saturating_sub(1) } else { l.params.len() };
    if from >= n {
        String::new()
    } else {
        l.params[from..n].join(" ")
    }
}

fn with_trailing(l: &Line, from: usize) -> String {
    if from >= l.params.len() {
        String::new()
    } else {
        l.params[from..].join(SEP)
    }
}

/// canonical form. Numerics: "<num> <kept params>" (the leading client parameter is dropped).
/// Everything else: ":<source> <CMD> <params joined by SEP>".
pub(crate) fn canon(raw: &str) -> String {
    let l = match irc::parse(raw) {
        Some(l) => l,
        None => return format!("?unparsable {}", raw),
    };
    if l.is_numeric() {
        let n = l.cmd.as_str();
        let t = l.params.last().map(|s| s.as_str()).unwrap_or("");
        return match n {
            "001" => format!("001 :{}", t),
            "002" | "003" | "004" | "005" | "253" | "321" | "323" | "375" | "376" | "391" | "242" | "351" | "371" | "374" | "704" | "705" | "706" | "364" | "365" => n.to_string(),
            "251" => {
                // :There are X users and Y invisible on Z servers
                let w: Vec<&str> = t.split(' ').collect();
                format!("251 {} {}", w.get(2).unwrap_or(&"?"), w.get(5).unwrap_or(&"?"))
            }
            "255" => {
                let w: Vec<&str> = t.split(' ').collect();
                format!("255 {}", w.get(2).unwrap_or(&"?"))
            }
            "252" | "254" => format!("{} {}", n, l.p(1)),
            "265" | "266" => format!("{} {} {}", n, l.p(1), l.p(2)),
            "221" => {
                let toks: Vec<String> = l.params[1..].to_vec();
                let mut ch = mode_changes(&toks, false);
                ch.sort();
                format!("221 {}", ch.join(","))
            }
            "301" => format!("301 {}{}{}", l.p(1), SEP, t),
            "302" | "303" => format!("{} {}", n, sorted_words(t)),
            "311" | "314" => format!("{} {} {} {}{}{}", n, l.p(1), l.p(2), l.p(3), SEP, t),
            "312" => format!("312 {}", l.p(1)),
            "317" => format!("317 {}", l.p(1)),
            "319" => format!("319 {} {}", l.p(1), sorted_words(t)),
            "322" => format!("322 {} {}{}{}", l.p(1), l.p(2), SEP, t),
            "324" => {
                let toks: Vec<String> = l.params[2..].to_vec();
                let mut ch = mode_changes(&toks, true);
                ch.sort();
                format!("324 {} {}", l.p(1), ch.join(","))
            }
            "329" => format!("329 {}", l.p(1)),
            "332" => format!("332 {}{}{}", l.p(1), SEP, t),
            "333" => format!("333 {}", l.p(1)),
            "352" => {
                // 352 client chan ~user host server nick flags :hop realname
                let real = t.splitn(2, ' ').nth(1).unwrap_or("");
                format!("352 {} {} {} {} {}{}{}", l.p(1), l.p(2), l.p(3), l.p(5), l.p(6), SEP, real)
            }
            "353" => format!("353 {} {} {}", l.p(1), l.p(2), sorted_words(t)),
            "367" => format!("367 {} {}", l.p(1), l.p(2)),
            "372" => format!("372 :{}", t),
            "256" => "256".to_string(),
            "257" | "258" | "259" => format!("{} :{}", n, t),
            "400" => format!("400 {}", l.p(1)),
            _ => {
                let m = mid(&l, 1);
                if m.is_empty() {
                    n.to_string()
                } else {
                    format!("{} {}", n, m)
                }
            }
        };
    }
    let src = l.source.clone().unwrap_or_default();
    // commands are case-insensitive: a relay may keep the sender's spelling
    let cmd = l.cmd.to_ascii_uppercase();
    if cmd.starts_with("ERROR") {
        // ":srv ERROR :User killed by <killer>: <comment>" keeps the killer; other ERROR texts are free text
        let t = l.params.join(" ");
        if let Some(rest) = t.strip_prefix("User killed by ") {
            let killer = rest.split(':').next().unwrap_or("");
            let comment = rest.splitn(2, ": ").nth(1).unwrap_or("");
            return format!("ERROR killed-by {}{}{}", killer, SEP, comment);
        }
        return "ERROR".to_string();
    }
    if cmd == "MODE" && !l.params.is_empty() {
        let target = l.p(0).to_string();
        let channel = target.starts_with('#') || target.starts_with('&');
        let toks: Vec<String> = l.params[1..].to_vec();
        let mut ch = mode_changes(&toks, channel);
        ch.sort();
        return format!(":{} MODE {} {}", src, target, ch.join(","));
    }
    if cmd == "PONG" {
        // what matters is the token
        return format!(":{} PONG {}", src, l.params.last().cloned().unwrap_or_default());
    }
    format!(":{} {} {}", src, cmd, with_trailing(&l, 0))
}

/// atomic changes of a canonical MODE announcement
pub(crate) fn mode_canon_parts(c: &str) -> Option<(String, Vec<String>)> {
    // ":src MODE target a,b,c"
    let mut it = c.splitn(4, ' ');
    let src = it.next()?;
    if it.next()? != "MODE" {
        return None;
    }
    let target = it.next()?;
    let rest = it.next().unwrap_or("");
    let parts: Vec<String> = if rest.is_empty() { vec![] } else { rest.split(',').map(|s| s.to_string()).collect() };
    Some((format!("{} MODE {}", src, target), parts))
}
