// stepchecks.rs - the step-mode, model-based checks: one generic engine (gen.rs + model.rs +
// oracle.rs), one workload profile and configuration swarm per property.

use crate::framework::*;
use crate::gen::*;
use crate::oracle::exec_model;
use crate::rt::Rng;
use crate::world::*;
use std::collections::HashMap;

pub(crate) struct StepCheck {
    pub id: &'static str,
    pub quick: u64,
    pub thorough: u64,
}

fn base_config(r: &mut Rng, id: &str) -> SimConfig {
    let mut cfg = SimConfig::default();
    cfg.operators.push(OperCfg { name: "root".into(), password: "rootpw".into(), mask: None });
    if r.chance(1, 2) {
        cfg.operators.push(OperCfg { name: "ops".into(), password: "opspw".into(), mask: Some(["*!*@10.0.0.1", "*!*@10.0.0.*", "ann!*@*", "*!~u1@*", "an*nn!~u0@10.0.0.1", "ann!~u0@10.0.0.1*0.1", "ann!~u0@10.0.0.*1", "ann", "ann@10.0.0.1", "ann!~u0", "*.0.0.1", "*@10.0.0.1"][r.below(12)].into()) });
    }
    cfg.max_joins = [None, None, Some(1), Some(2), Some(3)][r.below(5)];
    if matches!(id, "C19" | "C03" | "C02") && r.chance(1, 2) {
        cfg.max_connections = Some([1, 2, 3, 4, 5][r.below(5)]);
    }
    let heavy_cfg = matches!(id, "C16" | "C07" | "C20" | "C11" | "C19" | "C03");
    if r.chance(1, if heavy_cfg { 2 } else { 4 }) {
        let mut ch = ChanCfg { name: "#pre".into(), ..Default::default() };
        if r.chance(1, 2) {
            ch.topic = Some("configured topic".into());
        }
        if r.chance(1, 3) {
            ch.key = Some("prekey".into());
        }
        if r.chance(1, 4) {
            ch.client_limit = Some(r.range(1, 3));
        }
        if r.chance(1, 3) {
            ch.ban = vec![["*!*@10.0.0.2", "bob!*@*", "*!~u0@*"][r.below(3)].into()];
        }
        if r.chance(1, 4) {
            ch.exception = vec![["bob!*@*", "*!*@10.0.0.2"][r.below(2)].into()];
        }
        if r.chance(1, 4) {
            ch.invite_only = true;
            if r.chance(1, 2) {
                ch.invite_exception = vec![["ann!*@*", "*!*@10.0.0.3"][r.below(2)].into()];
            }
        }
        ch.moderated = r.chance(1, 5);
        ch.protected_topic = r.chance(1, 3);
        ch.no_external_messages = r.chance(1, 3);
        if r.chance(1, 2) {
            ch.founders = vec!["ann".into()];
        }
        if r.chance(1, 3) {
            ch.operators = vec![["bob", "ann"][r.below(2)].into()];
        }
        if r.chance(1, 3) {
            ch.voices = vec!["cat".into(), "bob".into()];
        }
        if r.chance(1, 4) {
            ch.half_operators = vec!["dan".into()];
        }
        if r.chance(1, 5) {
            ch.protecteds = vec!["cat".into()];
        }
        cfg.channels.push(ch);
        if r.chance(1, 3) {
            // a second predefined channel with other settings (which channel is which must not get mixed up)
            let mut d = ChanCfg { name: "#d".into(), ..Default::default() };
            if r.chance(1, 2) {
                d.topic = Some("topic of d".into());
            }
            if r.chance(1, 3) {
                d.key = Some("dkey".into());
            }
            if r.chance(1, 4) {
                d.client_limit = Some(r.range(1, 4));
            }
            d.moderated = r.chance(1, 4);
            d.secret = r.chance(1, 5);
            d.protected_topic = r.chance(1, 2);
            if r.chance(1, 2) {
                d.founders = vec!["bob".into()];
            }
            if r.chance(1, 3) {
                d.voices = vec!["ann".into()];
            }
            if r.chance(1, 3) {
                d.half_operators = vec!["cat".into(), "ann".into()];
            }
            if r.chance(1, 4) {
                d.ban = vec!["ann!*@*".into()];
            }
            cfg.channels.push(d);
        }
    }
    if r.chance(1, if heavy_cfg { 3 } else { 8 }) {
        cfg.channels.push(ChanCfg { name: "#sec".into(), secret: true, topic: Some("hidden".into()), ..Default::default() });
    }
    if r.chance(1, 6) {
        cfg.default_user_modes.invisible = true;
    }
    if r.chance(1, 8) {
        cfg.default_user_modes.wallops = true;
    }
    if matches!(id, "C11" | "C19") && r.chance(1, 6) {
        cfg.default_user_modes.oper = true;
    }
    if matches!(id, "C11" | "C19") && r.chance(1, 8) {
        cfg.default_user_modes.local_oper = true;
    }
    if r.chance(1, 8) {
        cfg.default_user_modes.registered = true;
    }
    if id == "C14" {
        // masks in the configuration: operator masks, user masks, predefined lists
        // (operator and user masks are plain whole-text globs: short forms are NOT completed there)
        let ms = ["ann", "bob@10.0.0.2", "*.0.0.1", "ann!~u0", "*!*@10.0.0.*", "?nn!*@*", "*!~u?@*", "a*!*@*", "*!*@*:*", "*n*!*@*", "ann!~u0@10.0.0.1", "*!*@10.0.0.1?", "żół?!*@*", "*!*@2001:db8::*"];
        if r.chance(1, 2) {
            cfg.operators.push(OperCfg { name: "masked".into(), password: "mpw".into(), mask: Some(ms[r.below(ms.len())].into()) });
        }
        if r.chance(1, 2) {
            cfg.users.push(UserCfg { name: "u1".into(), nick: "bob".into(), password: None, mask: Some(ms[r.below(ms.len())].into()) });
        }
        if r.chance(1, 2) {
            cfg.channels.push(ChanCfg {
                name: "#msk".into(),
                ban: vec![ms[r.below(ms.len())].into()],
                exception: if r.chance(1, 2) { vec![ms[r.below(ms.len())].into()] } else { vec![] },
                invite_only: r.chance(1, 2),
                invite_exception: if r.chance(1, 2) { vec![ms[r.below(ms.len())].into()] } else { vec![] },
                ..Default::default()
            });
        }
    }
    if matches!(id, "C03" | "C20" | "C02" | "C15" | "C11") || r.chance(1, 10) {
        if r.chance(1, 2) {
            cfg.password = Some("srvpw".into());
        }
        if r.chance(1, 2) {
            cfg.users.push(UserCfg {
                name: "u1".into(),
                nick: "bob".into(),
                password: if r.chance(1, 2) { Some("u1pass".into()) } else { None },
                // incl. masks whose literal head and tail overlap in the candidate's source (must not match) or just fit (must match)
                mask: [None, Some("*!*@10.0.0.2".to_string()), Some("*!*@10.9.9.9".to_string()), Some("bob!*@*".to_string()), Some("bo*ob!~u1@10.0.0.2".to_string()), Some("bob!~u1@10.0.0.*2".to_string()), Some("bob!~u1@10.0.0.2*.0.2".to_string()), Some("bob".to_string()), Some("bob@10.0.0.2".to_string()), Some("*.0.0.2".to_string())][r.below(10)].clone(),
            });
        }
        // further configured users with different settings (who is who must not get mixed up)
        if r.chance(1, 2) {
            cfg.users.push(UserCfg {
                name: ["u2", "guest", "u0"][r.below(3)].into(),
                nick: "cat".into(),
                password: if r.chance(1, 2) { Some("otherpass".into()) } else { None },
                mask: [None, None, Some("*!*@10.0.0.*".to_string()), Some("*!*@10.8.8.8".to_string())][r.below(4)].clone(),
            });
            if r.chance(1, 3) {
                cfg.users.push(UserCfg { name: "u3".into(), nick: "dan".into(), password: Some("thirdpass".into()), mask: None });
            }
        }
    }
    if r.chance(1, 12) {
        cfg.all_secure = true;
    }
    cfg
}

fn w_common() -> Vec<(K, u32)> {
    vec![
        (K::Register, 4),
        (K::Join, 14),
        (K::JoinMulti, 3),
        (K::Part, 6),
        (K::Kick, 4),
        (K::Nick, 5),
        (K::ModeChan, 8),
        (K::ModeUser, 2),
        (K::Privmsg, 8),
        (K::Notice, 3),
        (K::Names, 4),
        (K::Who, 3),
        (K::Whois, 3),
        (K::Topic, 2),
        (K::Invite, 2),
        (K::Quit, 1),
        (K::Eof, 1),
        (K::Reset, 1),
        (K::Away, 1),
        (K::List, 1),
        (K::ModeQuery, 2),
        (K::Oper, 1),
        (K::Lusers, 1),
        (K::Ping, 1),
        (K::Opaque, 1),
        (K::ReReg, 1),
        (K::SlowPeer, 1),
        (K::CapStuff, 1),
    ]
}

pub(crate) fn profile_for(id: &str) -> Profile {
    let p = Profile::base().w(&w_common());
    match id {
        "C01" => {
            let mut p = p.clone();
            p.chan_pool = 8;
            p.w(&[(K::Backpressure, 4), (K::Privmsg, 22), (K::Notice, 9), (K::Kick, 6), (K::Nick, 7), (K::Part, 7), (K::ModeChan, 10), (K::Eof, 2), (K::Reset, 2), (K::HalfOpen, 1), (K::ReReg, 3), (K::BanExcept, 2)])
        }
        "C04" => p.w(&[(K::Names, 12), (K::Who, 9), (K::Whois, 9), (K::Join, 16), (K::JoinMulti, 5), (K::Part, 9), (K::Kick, 7), (K::Nick, 7), (K::Quit, 2), (K::Eof, 2), (K::Reset, 2), (K::EofMidLine, 1)]),
        "C07" => p.w(&[(K::BanExcept, 4), (K::Join, 26), (K::JoinMulti, 8), (K::ModeChan, 16), (K::Invite, 8), (K::Part, 8), (K::Nick, 4), (K::Names, 5), (K::Kick, 3)]),
        "C08" => p.w(&[(K::BanExcept, 6), (K::ModeChan, 30), (K::ModeQuery, 8), (K::ModeList, 4), (K::Names, 5), (K::Who, 3), (K::Join, 12), (K::Privmsg, 6), (K::Topic, 4), (K::Kick, 4), (K::Invite, 3)]),
        "C09" => p.w(&[(K::Kick, 16), (K::Topic, 12), (K::TopicQuery, 5), (K::Invite, 12), (K::List, 4), (K::ModeChan, 12), (K::Join, 14), (K::Names, 4), (K::Part, 4)]),
        "C10" => p.w(&[(K::BanExcept, 5), (K::Privmsg, 22), (K::Notice, 14), (K::ModeChan, 16), (K::Away, 5), (K::Nick, 5), (K::Part, 4), (K::Join, 10), (K::Kick, 3)]),
        "C11" => p.w(&[(K::Oper, 10), (K::ModeUser, 14), (K::Kill, 6), (K::Wallops, 7), (K::Stats, 4), (K::Nick, 8), (K::Whois, 5), (K::Who, 3), (K::Userhost, 3), (K::Die, 1), (K::Register, 6), (K::Lusers, 2)]),
        "C15" => p.w(&[(K::Nick, 20), (K::Names, 6), (K::ModeQuery, 5), (K::Whois, 6), (K::Whowas, 5), (K::Wallops, 4), (K::Oper, 3), (K::ModeUser, 5), (K::Away, 4), (K::Invite, 6), (K::Privmsg, 8), (K::Join, 12), (K::ModeChan, 10), (K::Register, 5), (K::Kill, 2), (K::Userhost, 2)]),
        "C16" => p.w(&[(K::ModeList, 3), (K::Join, 20), (K::Part, 14), (K::Kick, 8), (K::Quit, 4), (K::Eof, 3), (K::Reset, 3), (K::Kill, 3), (K::Oper, 3), (K::List, 6), (K::Lusers, 4), (K::ModeQuery, 6), (K::Names, 5), (K::Topic, 5), (K::TopicQuery, 3), (K::ModeChan, 10), (K::Register, 6)]),
        "C19" => p.w(&[(K::Lusers, 10), (K::Ison, 8), (K::Userhost, 8), (K::ModeUser, 12), (K::Oper, 8), (K::Register, 12), (K::NewConn, 8), (K::Quit, 4), (K::Eof, 4), (K::Reset, 4), (K::Kill, 3), (K::Away, 4), (K::Nick, 5), (K::Join, 8), (K::Part, 5), (K::EofMidLine, 1), (K::HalfOpen, 1)]),
        "C03" => {
            let mut p = p.w(&[(K::Gated, 30), (K::CapStuff, 14), (K::Register, 10), (K::RegPiece, 20), (K::CompletionCollision, 4), (K::NewConn, 6), (K::Eof, 2), (K::Quit, 2), (K::Ison, 4), (K::Names, 4), (K::Lusers, 3)]);
            p.pre_register = 2;
            p
        }
        "C02" => {
            let mut p = p.w(&[(K::Register, 10), (K::RegPiece, 34), (K::CompletionCollision, 4), (K::Nick, 16), (K::Gated, 14), (K::NewConn, 6), (K::Eof, 6), (K::Reset, 5), (K::Quit, 3), (K::EofMidLine, 2), (K::CapStuff, 6), (K::ReReg, 4), (K::Privmsg, 10), (K::Whois, 5), (K::Ison, 6), (K::Names, 3), (K::Join, 8), (K::Kill, 2), (K::Oper, 4), (K::ModeUser, 5), (K::Wallops, 4), (K::Away, 2)]);
            p.nick_pool = 3;
            p.pre_register = 2;
            p.conns = (4, 7);
            p
        }
        "C14" => {
            let mut p = p.w(&[(K::BanExcept, 4), (K::ModeMask, 30), (K::WhoMask, 14), (K::Join, 22), (K::Part, 8), (K::Privmsg, 8), (K::Invite, 4), (K::ModeChan, 8), (K::ModeList, 5), (K::ModeQuery, 4), (K::Nick, 8), (K::Oper, 6), (K::Register, 6), (K::Kick, 1)]);
            p.nick_pool = 14;
            p.ipv6 = true;
            p
        }
        "C20" => p.w(&[(K::ModeList, 4), (K::Register, 10), (K::RegPiece, 6), (K::Join, 20), (K::JoinMulti, 4), (K::Oper, 8), (K::ModeQuery, 6), (K::List, 5), (K::Motd, 5), (K::ModeUser, 4), (K::Privmsg, 8), (K::Topic, 3), (K::TopicQuery, 3), (K::Whois, 4), (K::Wallops, 2), (K::Lusers, 3)]),
        "C18" => p.w(&[(K::SlowPeer, 0), (K::Join, 16), (K::Part, 4), (K::ModeChan, 6), (K::Nick, 3), (K::Privmsg, 5), (K::Topic, 2), (K::Away, 2), (K::ModeUser, 2)]),
        "C12" => p.w(&[(K::SlowPeer, 0), (K::Join, 14), (K::Part, 5), (K::Privmsg, 6), (K::Topic, 3), (K::Nick, 3), (K::ModeUser, 3), (K::Away, 2), (K::Names, 2), (K::Who, 2)]),
        "C06" => p.w(&[(K::Quit, 6), (K::Eof, 6), (K::Reset, 6), (K::EofMidLine, 3), (K::Kill, 4), (K::HalfOpen, 2), (K::Oper, 4), (K::Register, 8), (K::Whowas, 5), (K::Invite, 5), (K::ModeUser, 5), (K::Wallops, 3), (K::Lusers, 4), (K::Ison, 4), (K::ModeQuery, 5), (K::List, 3)]),
        _ => p,
    }
}

impl Check for StepCheck {
    fn id(&self) -> &'static str {
        self.id
    }
    fn runs(&self, tier: Tier) -> u64 {
        match tier {
            Tier::Quick => self.quick,
            Tier::Thorough => self.thorough,
        }
    }
    fn rule(&self) -> String {
        "each run: a seeded configuration (operators, predefined channels, default modes, max_joins, passwords) and a model-guided multi-client history of 25-70 steps \
         (one command or transport fault per step, then a quiescence barrier; in the thorough tier every second history has 70-160 steps, 5-9 connections and larger name pools; a fifth of the histories run over a fragmenting transport: capped reads/writes, lines arriving in two segments; in another fifth some steps send two or three commands of one connection in one segment); after every step every line on every connection is compared with the reference model. \
         A case is distinct+nontrivial by (command, outcome cell reported by the model incl. ranks/mode flags involved, #users bucket, #channels bucket); pure no-ops are not counted."
            .into()
    }
    fn assumptions(&self) -> Vec<String> {
        vec![
            "reference model written from the property statements; where a statement is silent the model accepts every reading (Optional/AnyOf) or ends the run as inconclusive".into(),
            "free-text tails, timestamps and idle times of replies are not compared; unordered reply groups are compared as multisets".into(),
            "discrepancies whose class belongs to another property end the run as abandoned(foreign), never as a violation".into(),
        ]
    }
    fn gen(&self, run_seed: u64, idx: u64, tier: Tier) -> Trace {
        let mut r = Rng::new(run_seed);
        let cfg = base_config(&mut r.fork(7), self.id);
        let mut prof = profile_for(self.id);
        if tier == Tier::Thorough && idx % 2 == 1 {
            // deeper bounds: longer histories, more connections, larger name pools
            prof.steps = (70, 160);
            prof.conns = (std::cmp::max(prof.conns.0, 5), std::cmp::max(prof.conns.1, 9));
            prof.nick_pool += 4;
            prof.chan_pool += 2;
        }
        let big = matches!(self.id, "C04" | "C16" | "C01" | "C09" | "C15") && r.fork(13).chance(1, 40);
        if big {
            // a crowd: 22-27 users on one channel (rosters longer than one reply line)
            prof.conns = (22, 27);
            prof.pre_register = 27;
            prof.steps = (15, 40);
        }
        let mut g = Gen::new(r.next_u64(), &cfg, &prof);
        g.big_channel = big;
        g.frag = r.fork(11).chance(1, 5);
        g.pipe = r.fork(12).chance(1, 5);
        g.spoof = r.fork(14).chance(1, 6);
        g.setup();
        g.run();
        Trace { check: self.id.into(), seed: 0, run_seed, config: cfg, params: HashMap::new(), actions: g.actions }
    }
    fn exec(&self, trace: &Trace) -> Outcome {
        exec_model(trace, self.id)
    }
}
