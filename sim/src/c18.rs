// c18.rs - C18 (and the race half of C02): per-connection order and atomicity under concurrency.
// Burst mode: several connections have pipelined commands in flight at once; gates (crate::gate)
// park handlers at every acquisition of the state lock and after password hashing, and the schedule
// stream decides when each parked handler continues and when each client's next segment arrives.
// Oracle: (a) per-connection reply order, (b) per (sender, receiver) message order, (c) a search for
// a linearisation of the burst against the reference model, (d) liveness after all gates are released.

use crate::canon::canon;
use crate::framework::*;
use crate::gate;
use crate::gen::*;
use crate::irc;
use crate::model::*;
use crate::oracle::match_step;
use crate::rt::{self, Rng};
use crate::stepchecks::profile_for;
use crate::world::*;
use std::collections::HashMap;

pub(crate) struct C18 {
    pub id: &'static str,
}

const TEMPLATES: &[&str] = &["nick_race_unreg", "first_join", "limit_slot", "oper_in_flight", "kick_part_nick", "msg_streams", "nick_race_reg", "invite_join", "password_reg_race", "mixed", "random", "random", "random", "random", "topic_mode_race", "kill_vs_leave", "leave_vs_nick_claim", "kill_vs_leave", "leave_vs_nick_claim", "counter_race", "password_burst", "reader_vs_writer", "reader_vs_writer", "wallops_order"];

fn esc_lines(v: &[String]) -> String {
    v.join("\u{1e}")
}

impl Check for C18 {
    fn id(&self) -> &'static str {
        self.id
    }
    fn runs(&self, tier: Tier) -> u64 {
        match tier {
            Tier::Quick => 6000,
            Tier::Thorough => 300_000,
        }
    }
    fn rule(&self) -> String {
        "burst mode: after a model-guided sequential set-up, 2-5 connections each get a pipelined script (every command followed by PING <unique>) built around a contended object \
         (one nickname claimed by several registrations or NICK changes, a new channel joined first by several, a +l channel with one free slot, OPER / password registration in flight, \
         KICK vs PART vs NICK of one member, numbered PRIVMSG streams during membership changes, INVITE vs JOIN). Handlers are parked at lock acquisitions and after password hashing with \
         seeded probabilities and released by a seeded schedule that also decides segment arrival. distinct+nontrivial = (template, sequence of gate sites at which handlers parked, \
         signature of the linearisation found)."
            .into()
    }
    fn assumptions(&self) -> Vec<String> {
        vec![
            "all shared state is behind the one state lock (plus single-word atomics), so every execution of the multi-threaded runtime is equivalent to an interleaving of lock-to-lock segments; \
             interleavings inside two parallel read-locked sections and weak-memory effects are out of reach"
                .into(),
            "deliveries from different senders to one receiver are not order-constrained".into(),
            "linearisation search is capped (200k nodes); above the cap the run is inconclusive, never a violation".into(),
        ]
    }
    fn probes(&self) -> Vec<&'static str> {
        vec!["gate.parked.LockRead", "gate.parked.LockWrite", "gate.parked.Blocking", "linearised", "template.nick_race_unreg", "template.limit_slot", "liveness_ok"]
    }

    fn gen(&self, run_seed: u64, idx: u64, _tier: Tier) -> Trace {
        if self.id == "C18" && idx % 16 == 5 {
            // liveness beside a slow peer with a very long reply pending (directed scenario, model-free oracle)
            return crate::stuck::gen_big_reply("C18", run_seed);
        }
        let mut r = Rng::new(run_seed);
        let mut cfg = SimConfig::default();
        cfg.operators.push(OperCfg { name: "root".into(), password: "rootpw".into(), mask: None });
        // as a component of another property's check only the templates built around that property's objects are used
        let tmpl_pool: Vec<&str> = match self.id {
            "C02" => vec!["nick_race_unreg", "nick_race_reg", "password_reg_race", "nick_race_unreg", "password_burst"],
            "C03" => vec!["password_burst", "password_reg_race", "nick_race_unreg", "password_burst"],
            "C07" => vec!["limit_slot", "invite_join", "first_join", "topic_mode_race"],
            "C08" => vec!["topic_mode_race", "kick_part_nick", "mixed", "topic_mode_race"],
            "C09" => vec!["kick_part_nick", "invite_join", "topic_mode_race", "leave_vs_nick_claim"],
            "C10" => vec!["msg_streams", "topic_mode_race", "mixed", "kill_vs_leave"],
            "C11" => vec!["oper_in_flight", "kill_vs_leave", "counter_race", "wallops_order"],
            "C15" => vec!["nick_race_reg", "leave_vs_nick_claim", "kick_part_nick", "password_reg_race"],
            "C16" => vec!["first_join", "kill_vs_leave", "leave_vs_nick_claim", "kick_part_nick"],
            "C04" => vec!["kick_part_nick", "leave_vs_nick_claim", "first_join", "kill_vs_leave", "reader_vs_writer"],
            "C12" => vec!["reader_vs_writer"],
            "C01" => vec!["msg_streams", "kick_part_nick", "leave_vs_nick_claim", "msg_streams"],
            "C19" => vec!["oper_in_flight", "kill_vs_leave", "counter_race", "limit_slot", "random", "counter_race"],
            _ => TEMPLATES.to_vec(),
        };
        let tmpl = tmpl_pool[(idx as usize) % tmpl_pool.len()];
        if tmpl == "password_reg_race" || tmpl == "password_burst" || r.chance(1, 6) {
            cfg.password = Some("srvpw".into());
        }
        cfg.max_joins = [None, None, Some(3)][r.below(3)];
        let mut prof = profile_for("C18");
        prof.pre_register = 3;
        prof.conns = (3, 4);
        prof.steps = (3, 10);
        let mut g = Gen::new(r.next_u64(), &cfg, &prof);
        g.setup();
        g.run();
        // make sure the three pre-registered users are still there and share a channel
        let regs = g.registered_conns();
        let mut scripts: Vec<(usize, Vec<String>)> = vec![];
        let mut seqno = 0u32;
        let mut num = |s: &mut u32| {
            *s += 1;
            *s
        };
        let nick_of = |g: &Gen, c: usize| g.m.conns[c].nick.clone().unwrap_or_default();
        let pass_line: Option<String> = cfg.password.clone().map(|p| format!("PASS {}", p));
        match tmpl {
            "nick_race_unreg" | "password_reg_race" => {
                let k = r.range(2, 3);
                let dup = format!("dup{}", r.below(3));
                for i in 0..k {
                    let c = g.open_conn();
                    let mut s = vec![];
                    if let Some(p) = &pass_line {
                        s.push(p.clone());
                    }
                    match r.below(3) {
                        0 => {
                            s.push(format!("NICK {}", dup));
                            s.push(format!("USER r{} 0 * :Racer {}", i, i));
                        }
                        1 => {
                            s.push(format!("USER r{} 0 * :Racer {}", i, i));
                            s.push(format!("NICK {}", dup));
                        }
                        _ => {
                            s.push("CAP LS 302".to_string());
                            s.push(format!("NICK {}", dup));
                            s.push(format!("USER r{} 0 * :Racer {}", i, i));
                            s.push("CAP END".to_string());
                        }
                    }
                    s.push("JOIN #race".to_string());
                    s.push(format!("PRIVMSG #race :hello from racer {} s{}", i, num(&mut seqno)));
                    scripts.push((c, s));
                }
                if !regs.is_empty() {
                    scripts.push((regs[0], vec![format!("WHOIS {}", dup), format!("ISON {}", dup)]));
                }
            }
            "password_burst" => {
                // several registrations with right and wrong passwords verified at the same time, distinct nicknames:
                // each is decided by the password it supplied itself
                let k = r.range(2, 4);
                let right = cfg.password.clone().unwrap_or_else(|| "srvpw".to_string());
                for i in 0..k {
                    let c = g.open_conn();
                    let pw = match r.below(4) {
                        0 | 1 => right.clone(),
                        2 => format!("{}x", right),
                        _ => "wrongpw".to_string(),
                    };
                    let mut s = vec![format!("PASS {}", pw), format!("NICK pb{}", i), format!("USER pb{} 0 * :Burst {}", i, i)];
                    s.push("JOIN #race".to_string());
                    scripts.push((c, s));
                }
                if !regs.is_empty() {
                    scripts.push((regs[0], vec!["ISON pb0 pb1 pb2 pb3".to_string(), "LUSERS".to_string()]));
                }
            }
            "nick_race_reg" => {
                if regs.len() >= 2 {
                    let target = format!("prize{}", r.below(2));
                    for &c in regs.iter().take(r.range(2, 3)) {
                        scripts.push((c, vec![format!("NICK {}", target), "JOIN #race".to_string(), format!("PRIVMSG #race :i am the one s{}", num(&mut seqno))]));
                    }
                }
            }
            "first_join" => {
                let ch = format!("#fresh{}", r.below(2));
                for &c in regs.iter().take(r.range(2, 4)) {
                    scripts.push((c, vec![format!("JOIN {}", ch), format!("MODE {}", ch), format!("NAMES {}", ch)]));
                }
            }
            "limit_slot" => {
                if regs.len() >= 3 {
                    let ch = "#lim".to_string();
                    g.say(regs[0], &format!("JOIN {}", ch));
                    g.say(regs[0], &format!("MODE {} +l 2", ch));
                    for &c in regs.iter().skip(1).take(3) {
                        scripts.push((c, vec![format!("JOIN {}", ch), format!("NAMES {}", ch)]));
                    }
                    scripts.push((regs[0], vec![format!("NAMES {}", ch)]));
                }
            }
            "oper_in_flight" => {
                if regs.len() >= 2 {
                    scripts.push((regs[0], vec!["OPER root rootpw".to_string(), "LUSERS".to_string(), format!("KILL {} :bye", nick_of(&g, regs[1]))]));
                    scripts.push((regs[1], vec!["LUSERS".to_string(), format!("PRIVMSG {} :before or after s{}", nick_of(&g, regs[0]), num(&mut seqno)), "OPER root wrongpw".to_string()]));
                    if regs.len() >= 3 {
                        scripts.push((regs[2], vec![format!("WHOIS {}", nick_of(&g, regs[0])), "LUSERS".to_string()]));
                    }
                }
            }
            "reader_vs_writer" => {
                // multi-target queries (answered from the state in several steps if the server is careless) racing the
                // writers that change what they show: +i/-i, +s, NICK, JOIN/PART
                if regs.len() >= 3 {
                    let n1 = nick_of(&g, regs[1]);
                    let n2 = nick_of(&g, regs[2]);
                    g.say(regs[1], "JOIN #rw1,#rw2");
                    g.say(regs[2], "JOIN #rw2");
                    let q = [format!("WHOIS {},{}", n1, n2), "WHOIS *".to_string(), "NAMES #rw1,#rw2".to_string(), "WHO *".to_string(), "NAMES".to_string(), "LIST".to_string()];
                    let q1 = q[r.below(q.len())].clone();
                    let q2 = q[r.below(q.len())].clone();
                    scripts.push((regs[0], vec![q1, q2]));
                    let w1 = [format!("MODE {} +i", n1), "NICK rwmoved".to_string(), "MODE #rw1 +s".to_string(), "PART #rw2".to_string()];
                    scripts.push((regs[1], vec![w1[r.below(w1.len())].clone(), w1[r.below(w1.len())].clone()]));
                    let w2 = [format!("MODE {} +i", n2), "JOIN #rw1".to_string(), "PART #rw2".to_string(), "AWAY :gone".to_string()];
                    scripts.push((regs[2], vec![w2[r.below(w2.len())].clone()]));
                }
            }
            "wallops_order" => {
                // an operator's WALLOPS and direct messages to a +w user, numbered: they arrive in the order sent, also
                // while the receiver toggles +w or somebody renames
                if regs.len() >= 2 {
                    let n1 = nick_of(&g, regs[1]);
                    g.say(regs[0], "OPER root rootpw");
                    g.say(regs[1], &format!("MODE {} +w", n1));
                    let mut s0 = vec![];
                    for _ in 0..r.range(2, 4) {
                        if r.chance(1, 2) {
                            s0.push(format!("WALLOPS :to all s{}", num(&mut seqno)));
                        } else {
                            s0.push(format!("PRIVMSG {} :direct s{}", n1, num(&mut seqno)));
                        }
                    }
                    scripts.push((regs[0], s0));
                    scripts.push((regs[1], vec![["PING still".to_string(), "AWAY :brb".to_string(), "JOIN #wo".to_string()][r.below(3)].clone()]));
                    if regs.len() >= 3 {
                        scripts.push((regs[2], vec!["NICK womoved".to_string(), format!("PRIVMSG {} :third s{}", n1, num(&mut seqno))]));
                    }
                }
            }
            "counter_race" => {
                // several updates of the same counters (operators, invisible users) in flight at once
                if regs.len() >= 2 {
                    let n0 = nick_of(&g, regs[0]);
                    let n1 = nick_of(&g, regs[1]);
                    scripts.push((regs[0], vec!["OPER root rootpw".to_string(), format!("MODE {} {}", n0, ["+i", "-o", "+w"][r.below(3)]), "LUSERS".to_string()]));
                    scripts.push((regs[1], vec!["OPER root rootpw".to_string(), format!("MODE {} {}", n1, ["-o", "+i", "-i"][r.below(3)])]));
                    if regs.len() >= 3 {
                        let n2 = nick_of(&g, regs[2]);
                        scripts.push((regs[2], vec![format!("MODE {} +i", n2), "OPER root rootpw".to_string(), format!("MODE {} -i", n2)]));
                    }
                }
            }
            "kick_part_nick" => {
                if regs.len() >= 3 {
                    let ch = "#kpn".to_string();
                    for &c in regs.iter().take(3) {
                        g.say(c, &format!("JOIN {}", ch));
                    }
                    let victim = nick_of(&g, regs[1]);
                    scripts.push((regs[0], vec![format!("KICK {} {} :out", ch, victim), format!("NAMES {}", ch)]));
                    scripts.push((regs[1], vec![[format!("PART {}", ch), "NICK moved".to_string(), format!("PRIVMSG {} :still here s{}", ch, num(&mut seqno))][r.below(3)].clone(), format!("NAMES {}", ch)]));
                    scripts.push((regs[2], vec![format!("MODE {} +v {}", ch, victim), format!("WHO {}", ch)]));
                }
            }
            "msg_streams" => {
                if regs.len() >= 3 {
                    let ch = "#str".to_string();
                    for &c in regs.iter().take(3) {
                        g.say(c, &format!("JOIN {}", ch));
                    }
                    for &c in regs.iter().take(2) {
                        let mut s = vec![];
                        for _ in 0..r.range(2, 4) {
                            let tgt = if r.chance(2, 3) { ch.clone() } else { nick_of(&g, regs[2]) };
                            s.push(format!("PRIVMSG {} :c{} s{}", tgt, c, num(&mut seqno)));
                        }
                        scripts.push((c, s));
                    }
                    scripts.push((regs[2], vec![format!("PART {}", ch), format!("JOIN {}", ch), format!("NAMES {}", ch)]));
                }
            }
            "invite_join" => {
                if regs.len() >= 3 {
                    let ch = "#inv".to_string();
                    g.say(regs[0], &format!("JOIN {}", ch));
                    g.say(regs[0], &format!("MODE {} +i", ch));
                    let guest = nick_of(&g, regs[1]);
                    scripts.push((regs[0], vec![format!("INVITE {} {}", guest, ch), [format!("MODE {} -i", ch), format!("MODE {} +l 1", ch), format!("NAMES {}", ch)][r.below(3)].clone()]));
                    scripts.push((regs[1], vec![format!("JOIN {}", ch), format!("JOIN {}", ch)]));
                    scripts.push((regs[2], vec![format!("JOIN {}", ch), format!("NAMES {}", ch)]));
                }
            }
            "random" => {
                if !regs.is_empty() && r.chance(1, 2) {
                    g.say(regs[0], "OPER root rootpw");
                }
                // model-guided commands of 2-4 connections, all generated against the pre-burst state
                let kinds = [K::Quit, K::Nick, K::Nick, K::Kill, K::Join, K::Join, K::Part, K::Kick, K::Nick, K::ModeChan, K::ModeChan, K::Privmsg, K::Privmsg, K::Notice, K::Topic, K::Invite, K::Names, K::Who, K::Whois, K::ModeUser, K::Away, K::Lusers, K::List, K::ModeQuery, K::Oper, K::Ison];
                for &c in regs.iter().take(r.range(2, 4)) {
                    let mut s = vec![];
                    for _ in 0..r.range(1, 3) {
                        let k = kinds[r.below(kinds.len())];
                        if let Some(l) = g.dry(k, c) {
                            // texts must stay unique across the burst
                            let l = if l.starts_with("PRIVMSG") || l.starts_with("NOTICE") { format!("{} s{}", l, num(&mut seqno)) } else { l };
                            s.push(l);
                        }
                    }
                    if !s.is_empty() {
                        scripts.push((c, s));
                    }
                }
            }
            "kill_vs_leave" => {
                // an operator kills a user who is just leaving / renaming / being killed by somebody else
                if regs.len() >= 3 {
                    g.say(regs[0], "OPER root rootpw");
                    let second_oper = r.chance(1, 2);
                    if second_oper {
                        g.say(regs[2], "OPER root rootpw");
                    }
                    let ch = "#kl".to_string();
                    for &c in regs.iter().take(3) {
                        g.say(c, &format!("JOIN {}", ch));
                    }
                    let v = nick_of(&g, regs[1]);
                    scripts.push((regs[0], vec![format!("KILL {} :first", v), format!("NAMES {}", ch), format!("ISON {} gone", v)]));
                    let vline = [
                        "QUIT :leaving".to_string(),
                        "NICK gone".to_string(),
                        format!("PART {}", ch),
                        format!("PRIVMSG {} :last words s{}", ch, num(&mut seqno)),
                    ][r.below(4)]
                    .clone();
                    scripts.push((regs[1], vec![vline, "LUSERS".to_string()]));
                    let third = if second_oper { format!("KILL {} :second", v) } else { format!("WHOIS {}", v) };
                    scripts.push((regs[2], vec![third, format!("NAMES {}", ch)]));
                }
            }
            "leave_vs_nick_claim" => {
                // a user leaves while another one takes over its nickname
                if regs.len() >= 3 {
                    let ch = "#lv".to_string();
                    for &c in regs.iter().take(3) {
                        g.say(c, &format!("JOIN {}", ch));
                    }
                    if r.chance(1, 2) {
                        g.say(regs[0], &format!("MODE {} +v {}", ch, nick_of(&g, regs[1])));
                    }
                    let v = nick_of(&g, regs[0]);
                    let leave = ["QUIT".to_string(), "QUIT :bye".to_string(), format!("NICK old{}", r.below(3))][r.below(3)].clone();
                    scripts.push((regs[0], vec![leave]));
                    scripts.push((regs[1], vec![format!("NICK {}", v), format!("PRIVMSG {} :do you hear me s{}", ch, num(&mut seqno)), format!("NAMES {}", ch)]));
                    scripts.push((regs[2], vec![format!("PRIVMSG {} :anyone s{}", ch, num(&mut seqno)), format!("NAMES {}", ch), format!("WHOIS {}", v)]));
                }
            }
            "topic_mode_race" => {
                if regs.len() >= 3 {
                    let ch = "#tm".to_string();
                    for &c in regs.iter().take(3) {
                        g.say(c, &format!("JOIN {}", ch));
                    }
                    let n1 = nick_of(&g, regs[1]);
                    scripts.push((regs[0], vec![[format!("MODE {} +t", ch), format!("MODE {} +m", ch), format!("MODE {} +o {}", ch, n1)][r.below(3)].clone(), format!("TOPIC {} :by founder s{}", ch, num(&mut seqno)), format!("MODE {}", ch)]));
                    scripts.push((regs[1], vec![format!("TOPIC {} :by member s{}", ch, num(&mut seqno)), format!("PRIVMSG {} :member speaks s{}", ch, num(&mut seqno)), format!("TOPIC {}", ch)]));
                    scripts.push((regs[2], vec![format!("TOPIC {}", ch), format!("KICK {} {} :x", ch, n1), format!("LIST {}", ch)]));
                }
            }
            _ => {
                // mixed: every registered connection sends a few commands around channel #mix
                let ch = "#mix".to_string();
                for &c in regs.iter().take(4) {
                    let mut s = vec![];
                    for _ in 0..r.range(1, 3) {
                        let l = match r.below(8) {
                            0 => format!("JOIN {}", ch),
                            1 => format!("PART {}", ch),
                            2 => format!("PRIVMSG {} :mix c{} s{}", ch, c, num(&mut seqno)),
                            3 => format!("TOPIC {} :topic by {} s{}", ch, c, num(&mut seqno)),
                            4 => format!("MODE {} +m", ch),
                            5 => format!("NAMES {}", ch),
                            6 => format!("NICK mx{}", r.below(3)),
                            _ => "LUSERS".to_string(),
                        };
                        s.push(l);
                    }
                    scripts.push((c, s));
                }
            }
        }
        if scripts.is_empty() {
            for &c in regs.iter().take(3) {
                scripts.push((c, vec!["JOIN #mix".to_string(), format!("PRIVMSG #mix :fallback c{} s{}", c, num(&mut seqno)), "NAMES #mix".to_string()]));
            }
        }
        let mut params = HashMap::new();
        params.insert("template".to_string(), tmpl.to_string());
        params.insert("scripts".to_string(), scripts.iter().map(|(c, s)| format!("{}\u{1d}{}", c, esc_lines(s))).collect::<Vec<_>>().join("\u{1c}"));
        let rates = [
            [0u32, 0, 0],
            [300, 300, 500],
            [0, 600, 0],
            [600, 0, 0],
            [150, 150, 900],
            [800, 800, 800],
        ][r.below(6)];
        params.insert("gates".to_string(), format!("{},{},{}", rates[0], rates[1], rates[2]));
        params.insert("schedseed".to_string(), r.next_u64().to_string());
        params.insert("mode".to_string(), "online".to_string());
        let mut actions = g.actions;
        actions.push(Action::Mark { m: "burst".into() });
        Trace { check: self.id.into(), seed: 0, run_seed, config: cfg, params, actions }
    }

    fn simplify(&self, t: &Trace) -> Vec<Trace> {
        let mut out = vec![];
        let scripts: Vec<String> = t.params.get("scripts").map(|s| s.split('\u{1c}').map(|x| x.to_string()).collect()).unwrap_or_default();
        if scripts.len() > 1 {
            for i in 0..scripts.len() {
                let mut s2 = scripts.clone();
                s2.remove(i);
                let mut t2 = t.clone();
                t2.params.insert("scripts".into(), s2.join("\u{1c}"));
                out.push(t2);
            }
        }
        for i in 0..scripts.len() {
            if let Some((c, ls)) = scripts[i].split_once('\u{1d}') {
                let lines: Vec<&str> = ls.split('\u{1e}').collect();
                if lines.len() > 1 {
                    let mut s2 = scripts.clone();
                    s2[i] = format!("{}\u{1d}{}", c, lines[..lines.len() - 1].join("\u{1e}"));
                    let mut t2 = t.clone();
                    t2.params.insert("scripts".into(), s2.join("\u{1c}"));
                    out.push(t2);
                }
            }
        }
        if t.params.get("gates").map_or(false, |g| g != "0,0,0") {
            let mut t2 = t.clone();
            t2.params.insert("gates".into(), "0,0,0".into());
            out.push(t2);
        }
        out
    }

    fn exec(&self, trace: &Trace) -> Outcome {
        if trace.params.get("scenario").map_or(false, |s| s == "slow_big_reply") {
            return crate::stuck::exec_big_reply(trace, self.id);
        }
        let t = trace.clone();
        let id = self.id;
        match rt::run_sim_timeout(trace.run_seed, 90, move || async move { exec_inner(t, id).await }) {
            Ok(o) => o,
            Err(e) if e == "HANG" => {
                let mut o = Outcome::new();
                o.violation = Some(Violation { property: id.into(), class: "atomicity".into(), sig: "hang_or_deadlock".into(), step: 0, msg: "burst did not finish within 90 s wall".into() });
                o
            }
            Err(e) => Outcome::harness_error(e),
        }
    }
}

#[derive(Clone, Debug)]
struct Op {
    c: usize,
    line: String,
    marker: String,
    inject_ev: usize,
    done_ev: Option<usize>,
    window: Vec<String>,
}

fn site_name(i: usize) -> &'static str {
    ["LockRead", "LockWrite", "Blocking"][i]
}

async fn exec_inner(t: Trace, prop: &'static str) -> Outcome {
    let mut out = Outcome::new();
    let tmpl = t.params.get("template").cloned().unwrap_or_default();
    out.count(&format!("template.{}", tmpl), 1);
    let mk = |class: &str, sig: String, msg: String| Violation { property: prop.into(), class: class.into(), sig, step: 0, msg };
    let mut w = World::new(&t.config).await;
    let mut m = Model::new(&t.config);
    // ---- sequential set-up (no gates), checked step by step so that the burst starts from a known state
    let mut exps: Vec<TExp> = vec![];
    for a in &t.actions {
        match a {
            Action::Open { ip } => {
                m.open(ip);
                w.apply(a).await;
            }
            Action::Send { c, d } => {
                let se = m.input(*c, &unesc(d));
                if se.ambiguous.is_some() {
                    out.status = Status::Inconclusive("ambiguous set-up".into());
                    return out;
                }
                exps.extend(se.exps);
                w.apply(a).await;
            }
            Action::CloseWrite { c } => {
                exps.extend(m.close_write(*c).exps);
                w.apply(a).await;
            }
            Action::Reset { c } => {
                m.reset(*c);
                w.apply(a).await;
            }
            Action::Settle => {
                w.apply(a).await;
                let obs = w.observe();
                let mut oc: Vec<Vec<String>> = obs.iter().map(|o| o.lines.iter().map(|l| canon(l)).collect()).collect();
                let discs = match_step(&exps, &mut oc);
                let extra = oc.iter().enumerate().any(|(c, v)| !v.is_empty() && !m.conns[c].deaf);
                if !discs.is_empty() || extra {
                    out.status = Status::Abandoned("foreign:setup_discrepancy".into());
                    return out;
                }
                exps.clear();
                m.touched.clear();
            }
            Action::Mark { .. } => {}
            other => w.apply(other).await,
        }
    }
    let _ = rt::take_panic_log();
    // ---- the burst
    let scripts: Vec<(usize, Vec<String>)> = t
        .params
        .get("scripts")
        .map(|s| {
            s.split('\u{1c}')
                .filter(|x| !x.is_empty())
                .filter_map(|x| {
                    let mut it = x.splitn(2, '\u{1d}');
                    let c = it.next()?.parse::<usize>().ok()?;
                    let ls: Vec<String> = it.next().unwrap_or("").split('\u{1e}').filter(|l| !l.is_empty()).map(|l| l.to_string()).collect();
                    Some((c, ls))
                })
                .collect()
        })
        .unwrap_or_default();
    if scripts.is_empty() {
        out.status = Status::Inconclusive("empty burst".into());
        return out;
    }
    let rates: Vec<u32> = t.params.get("gates").map(|s| s.split(',').filter_map(|x| x.parse().ok()).collect()).unwrap_or_default();
    let sched_seed: u64 = t.params.get("schedseed").and_then(|s| s.parse().ok()).unwrap_or(1);
    let mut sr = Rng::new(sched_seed);
    gate::set_policy([*rates.get(0).unwrap_or(&0), *rates.get(1).unwrap_or(&0), *rates.get(2).unwrap_or(&0)], rt::mix(sched_seed, 77));
    let mut ops: Vec<Vec<Op>> = scripts.iter().map(|_| vec![]).collect();
    let mut next_line: Vec<usize> = scripts.iter().map(|_| 0).collect();
    let mut streams: Vec<Vec<String>> = vec![vec![]; w.conns.len()]; // canon lines per connection during the burst
    let mut win_start: Vec<usize> = vec![0; w.conns.len()];
    let mut ev = 0usize;
    let mut eof_seen: Vec<bool> = vec![false; w.conns.len()];
    let mut handler_panic: Option<String> = None;
    let mut sched_log: Vec<String> = vec![];
    let mut idle_rounds = 0;
    let mut burst_model_before = m.clone();
    burst_model_before.defer_teardown = true;
    // every command is followed by "CAP LIST": its reply is the same before and after registration, has no
    // side effect and never occurs otherwise, so the k-th such reply on a connection closes the k-th command's window
    let marker_prefix = format!(":{} CAP *\u{1f}LIST", t.config.name);
    loop {
        ev += 1;
        // enabled actions
        let can_send: Vec<usize> = (0..scripts.len()).filter(|&i| next_line[i] < scripts[i].1.len()).collect();
        let parked = gate::parked_count();
        let total = can_send.len() + parked + 1;
        if can_send.is_empty() && parked == 0 {
            idle_rounds += 1;
        }
        let pick = sr.below(total);
        if pick < can_send.len() {
            let i = can_send[pick];
            let c = scripts[i].0;
            // a segment of 1..3 commands, each followed by its marker
            let n = std::cmp::min(sr.range(1, 3), scripts[i].1.len() - next_line[i]);
            let mut seg = String::new();
            for _ in 0..n {
                let k = next_line[i];
                let line = scripts[i].1[k].clone();
                let marker = format!("m{}x{}", c, k);
                seg.push_str(&line);
                seg.push_str("\r\n");
                seg.push_str("CAP LIST\r\n");
                ops[i].push(Op { c, line, marker, inject_ev: ev, done_ev: None, window: vec![] });
                next_line[i] += 1;
            }
            sched_log.push(format!("send c{} x{}", c, n));
            w.apply(&Action::Send { c, d: esc(seg.as_bytes()) }).await;
        } else if pick < can_send.len() + parked {
            let k = pick - can_send.len();
            sched_log.push(format!("release {}", k));
            gate::release_nth(k);
        } else {
            sched_log.push("settle".into());
        }
        w.settle().await;
        let obs = w.observe();
        for (tid, msg) in rt::take_panic_log() {
            if tid.and_then(|id| w.conn_of_task(id)).is_some() {
                handler_panic = Some(msg);
            } else {
                out.helper_panics.push(msg);
            }
        }
        for (c, o) in obs.iter().enumerate() {
            if c >= streams.len() {
                streams.push(vec![]);
                win_start.push(0);
                eof_seen.push(false);
            }
            for l in &o.lines {
                streams[c].push(canon(l));
            }
            if o.eof {
                eof_seen[c] = true;
            }
        }
        // markers
        for i in 0..scripts.len() {
            let c = scripts[i].0;
            loop {
                let k = match ops[i].iter().position(|o| o.done_ev.is_none()) {
                    Some(k) => k,
                    None => break,
                };
                let pos = streams[c][win_start[c]..].iter().position(|l| l.starts_with(&marker_prefix));
                match pos {
                    Some(p) => {
                        let end = win_start[c] + p;
                        ops[i][k].window = streams[c][win_start[c]..=end].to_vec();
                        ops[i][k].done_ev = Some(ev);
                        win_start[c] = end + 1;
                    }
                    None => break,
                }
            }
        }
        if handler_panic.is_some() {
            break;
        }
        let all_done = (0..scripts.len()).all(|i| next_line[i] >= scripts[i].1.len() && ops[i].iter().all(|o| o.done_ev.is_some() || eof_seen[o.c]));
        if all_done && gate::parked_count() == 0 {
            break;
        }
        if ev > 400 || idle_rounds > 12 {
            break;
        }
    }
    // (d) release everything, let it drain, then every live connection must answer
    gate::release_all();
    for _ in 0..3 {
        w.settle().await;
        gate::release_all();
    }
    gate::set_policy([0, 0, 0], 0);
    w.settle().await;
    let obs = w.observe();
    for (c, o) in obs.iter().enumerate() {
        for l in &o.lines {
            streams[c].push(canon(l));
        }
        if o.eof {
            eof_seen[c] = true;
        }
    }
    for i in 0..scripts.len() {
        let c = scripts[i].0;
        for k in 0..ops[i].len() {
            if ops[i][k].done_ev.is_none() {
                if let Some(p) = streams[c][win_start[c]..].iter().position(|l| l.starts_with(&marker_prefix)) {
                    let end = win_start[c] + p;
                    ops[i][k].window = streams[c][win_start[c]..=end].to_vec();
                    ops[i][k].done_ev = Some(ev + 1);
                    win_start[c] = end + 1;
                } else if eof_seen[c] {
                    // connection ended (QUIT/KILL/464): the rest of its stream is the window
                    ops[i][k].window = streams[c][win_start[c]..].to_vec();
                    ops[i][k].done_ev = Some(ev + 1);
                    win_start[c] = streams[c].len();
                }
            }
        }
    }
    let (gstats, site_log) = gate::stats();
    for i in 0..3 {
        out.count(&format!("gate.parked.{}", site_name(i)), gstats[i].parked);
        out.count(&format!("gate.passed.{}", site_name(i)), gstats[i].passed);
    }
    out.steps = w.steps;
    out.digest = w.digest;
    out.vt_ms = rt::virtual_elapsed_ms();
    out.tails = w.conns.iter().map(|c| c.all_lines.iter().rev().take(12).rev().cloned().collect()).collect();
    // the executed schedule (segment arrivals, releases, settles) and the gate sites at which handlers parked
    out.tails.push(sched_log.iter().map(|s| format!("schedule: {}", s)).collect());
    out.tails.push(site_log.iter().map(|s| format!("parked at: {}", site_name(*s as usize))).collect());
    let describe = |ops: &Vec<Vec<Op>>| -> String {
        ops.iter().map(|v| v.iter().map(|o| format!("c{}:{:?}->{:?}", o.c, o.line, o.window)).collect::<Vec<_>>().join(" ; ")).collect::<Vec<_>>().join(" || ")
    };
    if let Some(p) = handler_panic {
        let loc = p.rsplit(" @ ").next().unwrap_or("?").replace(env!("VERIF_REPO_PATH"), "");
        out.violation = Some(mk("atomicity", format!("panic@{}", loc.trim_start_matches('/')), format!("a connection handler panicked during the burst ({}): {} ; schedule {:?}", tmpl, p, sched_log)));
        return out;
    }
    // liveness: every op of a still-open connection completed
    for i in 0..scripts.len() {
        for o in &ops[i] {
            if o.done_ev.is_none() {
                out.violation = Some(mk(
                    "atomicity",
                    "unanswered_after_burst".into(),
                    format!("connection {} never answered {:?} (marker {}) although all gates were released; template {}; schedule {:?}", o.c, o.line, o.marker, tmpl, sched_log),
                ));
                return out;
            }
        }
    }
    out.count("liveness_ok", 1);
    // (a) markers in order is implied by how windows were cut; (b) per (sender, receiver) sequence numbers increase
    for (c, s) in streams.iter().enumerate() {
        let mut last: HashMap<String, u32> = HashMap::new();
        for l in s {
            if let Some(p) = irc::parse(&l.replace('\u{1f}', " ")) {
                if p.cmd == "PRIVMSG" || p.cmd == "NOTICE" || p.cmd == "WALLOPS" {
                    if let (Some(src), Some(word)) = (p.source.clone(), l.rsplit(' ').next()) {
                        if let Some(n) = word.strip_prefix('s').and_then(|x| x.parse::<u32>().ok()) {
                            // whatever the target (channel, nickname, the +w audience): one sender's numbered messages reach
                            // one receiver in the order they were sent
                            let key = src.clone();
                            if let Some(prev) = last.get(&key) {
                                // (equal numbers: one command with several targets reaching the same receiver)
                                if n < *prev {
                                    out.violation = Some(mk("order", "message_order".into(), format!("connection {} received {}'s messages out of order: s{} after s{}", c, src, n, prev)));
                                    return out;
                                }
                            }
                            last.insert(key, n);
                        }
                    }
                }
            }
        }
    }
    // (c) linearisation search
    let flat: Vec<&Op> = ops.iter().flat_map(|v| v.iter()).collect();
    let n_ops = flat.len();
    let mut nodes = 0usize;
    let mut found: Vec<(Model, Vec<usize>)> = vec![];
    let mut idx: Vec<usize> = vec![0; ops.len()];
    let mut order: Vec<usize> = vec![];
    let mut acc: Vec<TExp> = vec![];
    BEST_FAIL.with(|b| *b.borrow_mut() = None);
    ENDED.with(|e| *e.borrow_mut() = eof_seen.clone());
    AMBIG_SKIPPED.with(|a| a.set(false));
    search(&ops, &burst_model_before, &mut idx, &mut order, &mut acc, &streams, &mut nodes, &mut found, n_ops);
    let best_fail = BEST_FAIL.with(|b| b.borrow().clone()).map(|(_, w)| w).unwrap_or_else(|| "no complete order passes the per-command reply checks".to_string());
    if nodes >= NODE_CAP && found.is_empty() {
        out.status = Status::Inconclusive("linearisation search cap".into());
        return out;
    }
    if found.is_empty() && AMBIG_SKIPPED.with(|a| a.get()) {
        out.status = Status::Inconclusive("an order the model cannot judge (ambiguous command) was skipped".into());
        return out;
    }
    if found.is_empty() {
        let is_nick = tmpl.starts_with("nick_race") || tmpl == "password_reg_race";
        out.violation = Some(mk(
            if is_nick { "ownership" } else { "atomicity" },
            format!("no_linearisation:{}", tmpl),
            format!(
                "no order of the burst's commands that respects each connection's own order explains what was observed (closest: {}) (template {}, gates {:?}, parked sites {:?}): {} ; schedule {:?}",
                best_fail,
                tmpl,
                rates,
                site_log.iter().map(|s| site_name(*s as usize)).collect::<Vec<_>>(),
                describe(&ops),
                sched_log
            ),
        ));
        return out;
    }
    out.count("linearised", 1);
    if found.len() > 1 {
        out.count("multi_linearisations", 1);
    }
    let sig: String = found[0].1.iter().map(|i| i.to_string()).collect::<Vec<_>>().join("");
    let sites: String = site_log.iter().map(|s| s.to_string()).collect();
    out.cov_keys.push(hash_key(&[&tmpl, &sites, &sig]));
    // ---- final-state probes (sequential, no gates) against every surviving end state
    let live: Vec<usize> = (0..w.conns.len()).filter(|&c| !eof_seen[c]).collect();
    let mut survivors: Vec<Model> = found
        .into_iter()
        .map(|(mut m, _)| {
            m.defer_teardown = false;
            m
        })
        .collect();
    let probe_chans = ["#race", "#lim", "#kpn", "#str", "#inv", "#mix", "#fresh0", "#fresh1", "#tm", "#kl", "#lv", "#a", "#b", "#c", "#d"];
    let mut probes: Vec<(usize, String)> = vec![];
    for &c in &live {
        probes.push((c, "PING final".to_string()));
    }
    if let Some(&c0) = live.iter().find(|&&c| survivors[0].conns[c].registered) {
        probes.push((c0, "LUSERS".to_string()));
        probes.push((c0, "ISON dup0 dup1 dup2 prize0 prize1 moved mx0 mx1 mx2 gone old0 old1 old2 ann bob cat dan".to_string()));
        for ch in probe_chans {
            if survivors.iter().any(|s| s.chans.contains_key(ch)) {
                probes.push((c0, format!("NAMES {}", ch)));
                probes.push((c0, format!("WHO {}", ch)));
            }
        }
    }
    for (c, line) in probes {
        w.apply(&Action::line(c, &line)).await;
        w.settle().await;
        let obs = w.observe();
        let mut next: Vec<Model> = vec![];
        let mut last_discs = String::new();
        for s in survivors.iter() {
            let mut s2 = s.clone();
            let se = s2.input(c, format!("{}\r\n", line).as_bytes());
            let mut oc: Vec<Vec<String>> = obs.iter().map(|o| o.lines.iter().map(|l| canon(l)).collect()).collect();
            let discs = match_step(&se.exps, &mut oc);
            let extra: Vec<String> = oc.iter().enumerate().filter(|(cc, _)| !s2.conns[*cc].deaf).flat_map(|(_, v)| v.iter().cloned()).collect();
            if discs.is_empty() && extra.is_empty() {
                next.push(s2);
            } else {
                last_discs = format!("{:?} extra {:?}", discs.iter().map(|d| (d.exp.clone(), d.obs.clone())).collect::<Vec<_>>(), extra);
            }
        }
        if next.is_empty() {
            out.violation = Some(mk(
                "atomicity",
                format!("final_state:{}", tmpl),
                format!("after the burst ({}), probe {:?} on connection {} matches none of the end states the linearisations allow: {} ; burst: {}", tmpl, line, c, last_discs, describe(&ops)),
            ));
            return out;
        }
        survivors = next;
    }
    // ---- last-writer consistency: a member who stayed on a channel through the whole burst was told every topic
    // change in the order they took effect, so the last TOPIC announcement it received is the topic the server
    // now reports (asked of the server itself, not of the model)
    for (ch, mc) in burst_model_before.chans.iter() {
        let pat = format!(" TOPIC {}{}", ch, crate::canon::SEP);
        // members that stayed throughout and were told about at least one topic change
        let mut told: Vec<(usize, String)> = vec![];
        for m in mc.members.keys() {
            let c = match burst_model_before.users.get(m) {
                Some(u) => u.conn,
                None => continue,
            };
            if c >= streams.len() || eof_seen.get(c).copied().unwrap_or(true) {
                continue;
            }
            // (anybody who may have left and come back is not judged: a 353 for the channel marks a join or a query)
            if streams[c].iter().any(|l| l.starts_with("353 ") && l.split(' ').nth(2) == Some(ch.as_str())) {
                continue;
            }
            let still_member = survivors.iter().all(|s| s.chans.get(ch).map_or(false, |x| x.members.keys().any(|k| s.users.get(k).map_or(false, |u| u.conn == c))));
            if !still_member {
                continue;
            }
            if let Some(l) = streams[c].iter().rev().find(|l| l.starts_with(':') && l.contains(&pat)) {
                told.push((c, l.splitn(2, &pat).nth(1).unwrap_or("").to_string()));
            }
        }
        if told.is_empty() {
            continue;
        }
        let asker = told[0].0;
        w.apply(&Action::line(asker, &format!("TOPIC {}", ch))).await;
        w.settle().await;
        let obs = w.observe();
        let mut now: Option<String> = None;
        for l in &obs[asker].lines {
            let cl = canon(l);
            if let Some(rest) = cl.strip_prefix(&format!("332 {}{}", ch, crate::canon::SEP)) {
                now = Some(rest.to_string());
            } else if cl.starts_with(&format!("331 {}", ch)) {
                now = Some(String::new());
            }
        }
        let now = match now {
            Some(t) => t,
            None => continue,
        };
        for (c, text) in &told {
            if *text != now {
                out.violation = Some(mk(
                    "atomicity",
                    format!("stale_last_topic:{}", tmpl),
                    format!(
                        "after the burst ({}), connection {} - a member of {} throughout - was last told the topic {:?}, but the server reports the topic {:?}: it saw the topic changes in another order than they took effect ; burst: {}",
                        tmpl, c, ch, text, now, describe(&ops)
                    ),
                ));
                return out;
            }
            out.count("last_topic_consistent", 1);
        }
    }
    out
}

const NODE_CAP: usize = 200_000;

thread_local! {
    /// connections whose session ended during the burst
    static ENDED: std::cell::RefCell<Vec<bool>> = std::cell::RefCell::new(vec![]);
    static BEST_FAIL: std::cell::RefCell<Option<(usize, String)>> = std::cell::RefCell::new(None);
    /// the search skipped an order because the model calls a command in it ambiguous
    static AMBIG_SKIPPED: std::cell::Cell<bool> = std::cell::Cell::new(false);
}

#[allow(clippy::too_many_arguments)]
fn search(
    ops: &Vec<Vec<Op>>,
    model: &Model,
    idx: &mut Vec<usize>,
    order: &mut Vec<usize>,
    acc: &mut Vec<TExp>,
    streams: &Vec<Vec<String>>,
    nodes: &mut usize,
    found: &mut Vec<(Model, Vec<usize>)>,
    n_ops: usize,
) {
    if *nodes >= NODE_CAP || found.len() >= 16 {
        return;
    }
    *nodes += 1;
    if order.len() == n_ops && (!model.pending_teardown.is_empty() || !model.pending_kill.is_empty()) {
        // everything has drained by the end of the burst
        let mut m2 = model.clone();
        let before = acc.len();
        for (c, _, _) in model.pending_kill.clone() {
            let se = m2.deliver_kill(c);
            acc.extend(se.exps);
        }
        for c in m2.pending_teardown.clone() {
            m2.finish_teardown(c);
        }
        search(ops, &m2, idx, order, acc, streams, nodes, found, n_ops);
        acc.truncate(before);
        return;
    }
    if order.len() == n_ops {
        // whole-burst check: every line on every connection is explained, nothing is left over
        let mut oc: Vec<Vec<String>> = streams.clone();
        while oc.len() < model.conns.len() {
            oc.push(vec![]);
        }
        // a session that ended during the burst may have lost relayed lines that were still queued for it
        // (unread output dies with the session); what it was answered directly stays required
        let ended = ENDED.with(|e| e.borrow().clone());
        let srv_prefix = format!(":{} ", model.cfg.name);
        let adjusted: Vec<TExp> = acc
            .iter()
            .map(|te| {
                let c = te.e.conn();
                if !ended.get(c).copied().unwrap_or(false) {
                    return te.clone();
                }
                match &te.e {
                    Exp::Exact { c, line } | Exp::AtLeast1 { c, line } if line.starts_with(':') && !line.starts_with(&srv_prefix) => {
                        TExp { e: Exp::Optional { c: *c, options: vec![line.clone()] }, props: te.props, props_rank: te.props_rank }
                    }
                    Exp::OnePrefix { c, prefix } if prefix.starts_with(':') && !prefix.starts_with(&srv_prefix) => {
                        TExp { e: Exp::OptionalPrefix { c: *c, prefix: prefix.clone() }, props: te.props, props_rank: te.props_rank }
                    }
                    Exp::ModeAnn { c, head, optional, required } if head.starts_with(':') => {
                        let mut all = optional.clone();
                        all.extend(required.iter().cloned());
                        TExp { e: Exp::ModeAnn { c: *c, head: head.clone(), required: vec![], optional: all }, props: te.props, props_rank: te.props_rank }
                    }
                    _ => te.clone(),
                }
            })
            .collect();
        let discs = match_step(&adjusted, &mut oc);
        let extra = oc.iter().enumerate().any(|(c, v)| !v.is_empty() && model.conns.get(c).map_or(true, |x| !x.deaf));
        if !(discs.is_empty() && !extra) {
            let n = discs.len() + oc.iter().map(|v| v.len()).sum::<usize>();
            if std::env::var("VERIF_DEBUG").map_or(false, |v| v == "3") {
                eprintln!("complete order {:?} fails: {:?} left {:?}", order, discs.iter().map(|d| (d.c, d.exp.clone(), d.obs.clone())).collect::<Vec<_>>(), oc);
            }
            BEST_FAIL.with(|b| {
                let mut b = b.borrow_mut();
                if b.as_ref().map_or(true, |(m, _)| n < *m) {
                    let why = format!(
                        "order {:?}: unexplained {:?}; left over {:?}",
                        order,
                        discs.iter().map(|d| (d.c, d.exp.clone(), d.obs.clone())).collect::<Vec<_>>(),
                        oc.iter().enumerate().filter(|(_, v)| !v.is_empty()).collect::<Vec<_>>()
                    );
                    *b = Some((n, why));
                }
            });
        }
        if discs.is_empty() && !extra {
            // keep distinct end states only
            let key = format!("{:?}{:?}", model.users.keys().collect::<Vec<_>>(), model.chans.iter().map(|(k, v)| (k, v.members.clone(), v.limit, v.fi)).collect::<Vec<_>>());
            if !found.iter().any(|(m, _)| format!("{:?}{:?}", m.users.keys().collect::<Vec<_>>(), m.chans.iter().map(|(k, v)| (k, v.members.clone(), v.limit, v.fi)).collect::<Vec<_>>()) == key) {
                found.push((model.clone(), order.clone()));
            }
        }
        return;
    }
    // a session that ended (QUIT, KILL, 464) removes its user in a later step of its own task: a pseudo-operation
    for c in model.pending_teardown.clone() {
        let mut m2 = model.clone();
        m2.finish_teardown(c);
        search(ops, &m2, idx, order, acc, streams, nodes, found, n_ops);
    }
    // ... and a killed session notices the kill in a later step of its own task
    for (c, _, _) in model.pending_kill.clone() {
        let mut m2 = model.clone();
        let se = m2.deliver_kill(c);
        let before = acc.len();
        acc.extend(se.exps);
        search(ops, &m2, idx, order, acc, streams, nodes, found, n_ops);
        acc.truncate(before);
    }
    for i in 0..ops.len() {
        let k = idx[i];
        if k >= ops[i].len() {
            continue;
        }
        let op = &ops[i][k];
        // real-time order: an operation that completed before another was injected precedes it
        let mut blocked = false;
        for j in 0..ops.len() {
            if j == i {
                continue;
            }
            for o2 in &ops[j][idx[j]..] {
                if let Some(d) = o2.done_ev {
                    if d < op.inject_ev {
                        blocked = true;
                    }
                }
            }
        }
        if blocked {
            if std::env::var("VERIF_DEBUG").map_or(false, |v| v == "3") {
                eprintln!("blocked at depth {} op c{} {:?} inject {}", order.len(), op.c, op.line, op.inject_ev);
            }
            continue;
        }
        let mut m2 = model.clone();
        // if the connection ended before this command's marker was answered, only the command itself is applied
        let marker_seen = op.window.last().map_or(false, |l| l.starts_with(&format!(":{} CAP *\u{1f}LIST", model.cfg.name)));
        let bytes = if marker_seen { format!("{}\r\nCAP LIST\r\n", op.line) } else { format!("{}\r\n", op.line) };
        let se = m2.input(op.c, bytes.as_bytes());
        if se.ambiguous.is_some() {
            // an order in which the model cannot say what this command does: it is not a counter-example, but if
            // no other order explains the burst the run proves nothing
            AMBIG_SKIPPED.with(|a| a.set(true));
            continue;
        }
        // prune on the sender's own replies: everything expected on its connection must be in the window
        // (only what the server answers directly: numerics and server-sourced lines. Relayed lines - also the
        // sender's own NICK/PART/MODE/TOPIC echo - travel through the user's outbound queue and may be written after
        // the direct reply of a later command; they are accounted for in the whole-burst comparison)
        let srv_prefix = format!(":{} ", model.cfg.name);
        let own: Vec<TExp> = se
            .exps
            .iter()
            .filter(|e| e.e.conn() == op.c)
            .filter(|e| match &e.e {
                Exp::Exact { line, .. } | Exp::AtLeast1 { line, .. } => !line.starts_with(':') || line.starts_with(&srv_prefix),
                Exp::AnyOf { options, .. } => options.iter().all(|l| !l.starts_with(':') || l.starts_with(&srv_prefix)),
                Exp::ModeAnn { head, .. } => !head.starts_with(':'),
                Exp::OnePrefix { prefix, .. } => !prefix.starts_with(':') || prefix.starts_with(&srv_prefix),
                _ => true,
            })
            .cloned()
            .collect();
        let mut win: Vec<Vec<String>> = vec![vec![]; std::cmp::max(m2.conns.len(), op.c + 1)];
        win[op.c] = op.window.clone();
        let discs = match_step(&own, &mut win);
        if !discs.is_empty() {
            if std::env::var("VERIF_DEBUG").map_or(false, |v| v == "3") {
                eprintln!("prune at depth {} op c{} {:?}: {:?} (window {:?})", order.len(), op.c, op.line, discs.iter().map(|d| (d.exp.clone(), d.obs.clone())).collect::<Vec<_>>(), op.window);
            }
            continue;
        }
        idx[i] += 1;
        order.push(i);
        let before = acc.len();
        acc.extend(se.exps);
        search(ops, &m2, idx, order, acc, streams, nodes, found, n_ops);
        acc.truncate(before);
        order.pop();
        idx[i] -= 1;
    }
}
