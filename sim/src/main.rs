// sircsim - deterministic simulator + checkers for simple-irc-server.
// Crate root = the server's own modules (by #[path] into the repo working tree) + harness.
#![allow(dead_code)]
#![allow(unused_imports)]
#![allow(clippy::all)]

include!(concat!(env!("OUT_DIR"), "/repo_mods.rs"));

use command::*;
use config::*;
use state::*;
use utils::*;

mod c05;
mod c06;
mod c12;
mod c13;
mod c17;
mod c18;
mod c20;
mod canon;
mod framework;
mod gate;
mod gen;
mod irc;
mod model;
mod oracle;
mod stepchecks;
mod stuck;
mod net;
mod rt;
mod world;

use framework::{Check, Tier};
use std::sync::Arc;
use world::*;

fn registry() -> Vec<Arc<dyn Check>> {
    let mut v: Vec<Arc<dyn Check>> = vec![Arc::new(c05::C05)];
    v.push(Arc::new(Composite {
        id: "C02",
        step: Arc::new(stepchecks::StepCheck { id: "C02", quick: 15_000, thorough: 160_000 }),
        burst: Arc::new(c18::C18 { id: "C02" }),
        every: 4,
    }));
    for id in ["C01", "C03", "C04", "C07", "C08", "C09", "C10", "C11", "C14", "C15", "C16", "C19"] {
        // checks whose workload verifies many argon2 hashes get a smaller thorough tier (about 10 minutes on 16 cores each)
        let thorough = if matches!(id, "C03" | "C11" | "C19" | "C14") { 500_000 } else { 900_000 };
        if id != "C14" {
            // "for every history" includes histories whose commands overlap: every 12th run is a burst run over the
            // templates built around this property's objects (memberships, message streams, counters, admissions,
            // ranks, passwords ...); C14 (pure matching) has none
            v.push(Arc::new(Composite { id, step: Arc::new(stepchecks::StepCheck { id, quick: 27_500, thorough: thorough / 12 * 11 }), burst: Arc::new(c18::C18 { id }), every: 12 }));
        } else {
            v.push(Arc::new(stepchecks::StepCheck { id, quick: 30_000, thorough }));
        }
    }
    v.push(Arc::new(c06::C06));
    v.push(Arc::new(c17::C17));
    // C12: two-world runs, plus every 8th run a burst run (multi-target WHOIS/NAMES/WHO/LIST racing +i, +s, NICK, JOIN/PART)
    v.push(Arc::new(Composite { id: "C12", step: Arc::new(c12::C12), burst: Arc::new(c18::C18 { id: "C12" }), every: 8 }));
    v.push(Arc::new(c13::C13));
    v.push(Arc::new(c20::C20));
    v.push(Arc::new(c18::C18 { id: "C18" }));
    v
}

/// C02 = step-mode histories (3 of 4 runs) + burst-mode nickname races under gates (1 of 4 runs)
struct Composite {
    id: &'static str,
    step: Arc<dyn Check>,
    burst: Arc<dyn Check>,
    /// every `every`-th run is a burst run
    every: u64,
}

impl Check for Composite {
    fn id(&self) -> &'static str {
        self.id
    }
    fn runs(&self, tier: Tier) -> u64 {
        self.step.runs(tier) / (self.every - 1) * self.every
    }
    fn rule(&self) -> String {
        format!("runs with index % {e} != {l}: {} || runs with index % {e} == {l}: {}", self.step.rule(), self.burst.rule(), e = self.every, l = self.every - 1)
    }
    fn assumptions(&self) -> Vec<String> {
        let mut a = self.step.assumptions();
        a.extend(self.burst.assumptions());
        a
    }
    fn probes(&self) -> Vec<&'static str> {
        if self.id == "C02" {
            vec!["gate.parked.LockWrite", "linearised", "template.nick_race_unreg"]
        } else {
            vec!["gate.parked.LockWrite", "linearised"]
        }
    }
    fn gen(&self, run_seed: u64, idx: u64, tier: Tier) -> Trace {
        if self.id == "C02" && idx % 16 == 6 {
            // directed fault scenario: a killed session whose task is stuck behind a peer that does not read
            return stuck::gen(self.id, run_seed);
        }
        if idx % self.every == self.every - 1 {
            self.burst.gen(run_seed, idx / self.every, tier)
        } else {
            self.step.gen(run_seed, idx, tier)
        }
    }
    fn exec(&self, trace: &Trace) -> framework::Outcome {
        if trace.params.get("scenario").map_or(false, |s| s == "stuck_kill") {
            return stuck::exec(trace, self.id);
        }
        if trace.params.contains_key("template") {
            self.burst.exec(trace)
        } else {
            self.step.exec(trace)
        }
    }
    fn simplify(&self, t: &Trace) -> Vec<Trace> {
        if t.params.contains_key("template") {
            self.burst.simplify(t)
        } else {
            vec![]
        }
    }
}

fn find_check(id: &str) -> Option<Arc<dyn Check>> {
    registry().into_iter().find(|c| c.id() == id)
}

fn smoke(seed: u64) -> String {
    rt::run_sim(seed, move || async move {
        let cfg = SimConfig::default();
        let mut w = World::new(&cfg).await;
        let mut log = String::new();
        let a = w.open("10.0.0.1", false);
        let b = w.open("10.0.0.2", false);
        let script: Vec<(usize, &str)> = vec![
            (a, "NICK alice"), (a, "USER alice 0 * :Alice A"),
            (b, "NICK bob"), (b, "USER bob 0 * :Bob B"),
            (a, "JOIN #x"), (b, "JOIN #x"), (a, "PRIVMSG #x :hello there"),
            (b, "NAMES #x"), (a, "WHOIS bob"), (a, "TIME"), (b, "QUIT"),
        ];
        for (c, l) in script {
            w.apply(&Action::line(c, l)).await;
            w.settle().await;
            let obs = w.observe();
            for (i, o) in obs.iter().enumerate() {
                for l in &o.lines {
                    log.push_str(&format!("{} <- {}\n", i, l));
                }
                if o.eof { log.push_str(&format!("{} EOF\n", i)); }
            }
        }
        log.push_str(&format!("digest {:x} vt {}ms\n", w.digest, rt::virtual_elapsed_ms()));
        log
    }).unwrap()
}

/// Process-global lazies (argon2 parameters, chrono's time-zone cache, clap/toml tables, the password memo ...) are
/// initialised by whichever thread touches them first; if that is a simulation thread its HashMap key sequence
/// shifts by the number of maps created during the initialisation. One throw-away run touching all of them makes
/// every later run independent of what ran before it in the process (found by `selftest`).
fn warmup() {
    let _ = world::hash_password("warmup");
    let _ = rt::run_sim(1, || async {
        let mut cfg = SimConfig::default();
        cfg.password = Some("warmup".into());
        cfg.operators.push(OperCfg { name: "root".into(), password: "warmup".into(), mask: Some("*!*@*".into()) });
        cfg.channels.push(ChanCfg { name: "#pre".into(), topic: Some("t".into()), ban: vec!["x!*@*".into()], ..Default::default() });
        let mut w = World::new(&cfg).await;
        let a = w.open("10.0.0.1", false);
        let b = w.open("::1", false);
        for l in ["PASS warmup", "NICK wa", "USER wa 0 * :wa", "OPER root warmup", "OPER root nope", "TIME", "STATS u", "STATS m", "JOIN #pre,#x", "MODE #x +b a!*@*", "MODE #x +b",
                  "WHOIS wa", "NICK wb", "WHOWAS wa", "HELP", "HELP COMMANDS", "INFO", "VERSION", "ADMIN", "LINKS", "LIST", "NAMES", "WHO *", "PRIVMSG #x,wb,#x :hi", "TOPIC #x :t", "TOPIC #x",
                  "AWAY :gone", "USERHOST wb", "ISON wb", "LUSERS", "MOTD", "KICK #x wb", "INVITE wb #pre", "WALLOPS :x", "FROB", "PRIVMSG", "MODE #x +z", "MODE wb +x", "CAP LS 302", "CAP END", "KILL wb :x"] {
            w.apply(&Action::line(a, l)).await;
            w.settle().await;
        }
        w.apply(&Action::Send { c: b, d: world::esc(b"NICK \xff\r\n") }).await;
        w.settle().await;
        let _ = w.observe();
    });
    // the configuration start-up path (clap, toml, validator)
    let path = format!("/tmp/sircsim-warmup-{}.toml", std::process::id());
    let _ = std::fs::write(&path, "name = \"a.b\"\n");
    if let Ok(cli) = <Cli as clap::Parser>::try_parse_from(["x", "-c", path.as_str(), "-n", "c.d"]) {
        let _ = MainConfig::new(cli);
    }
    let _ = std::fs::remove_file(&path);
    let _ = rt::take_panic_log();
}

fn env_u64(k: &str) -> Option<u64> {
    std::env::var(k).ok().and_then(|v| v.trim().parse::<u64>().ok())
}

fn main() {
    let args: Vec<String> = std::env::args().collect();
    let cmd = args.get(1).map(|s| s.as_str()).unwrap_or("");
    if matches!(cmd, "check" | "replay" | "digests" | "dump" | "smoke") {
        warmup();
    }
    match cmd {
        "smoke" => {
            let seed = args.get(2).and_then(|s| s.parse().ok()).unwrap_or(1);
            print!("{}", smoke(seed));
        }
        "check" => {
            let id = args.get(2).cloned().unwrap_or_default();
            let tier = match std::env::var("VERIF_TIER").ok().as_deref().or(args.get(3).map(|s| s.as_str())) {
                Some("thorough") => Tier::Thorough,
                _ => Tier::Quick,
            };
            let tier = match args.get(3).map(|s| s.as_str()) {
                Some("thorough") => Tier::Thorough,
                Some("quick") => Tier::Quick,
                _ => tier,
            };
            let seed = env_u64("VERIF_SEED").unwrap_or(framework::DEFAULT_SEED);
            let jobs = env_u64("VERIF_JOBS").unwrap_or(16) as usize;
            let runs = env_u64("VERIF_RUNS");
            match find_check(&id) {
                Some(c) => std::process::exit(framework::run_check(c, tier, seed, jobs.max(1), runs)),
                None => {
                    eprintln!("unknown check id {}", id);
                    std::process::exit(2);
                }
            }
        }
        "dump" => {
            // prints the full transcript of one generated run (debugging aid)
            let id = args.get(2).cloned().unwrap_or_default();
            let idx: u64 = args.get(3).and_then(|s| s.parse().ok()).unwrap_or(0);
            let seed = env_u64("VERIF_SEED").unwrap_or(framework::DEFAULT_SEED);
            let c = find_check(&id).unwrap();
            let run_seed = rt::mix(rt::mix(seed, framework::hash_key(&[c.id()])), idx);
            let t = c.gen(run_seed, idx, Tier::Quick);
            let t2 = t.clone();
            let lines = rt::run_sim(run_seed, move || async move {
                let mut w = World::new(&t2.config).await;
                let mut out = vec![];
                for a in &t2.actions {
                    w.apply(a).await;
                    if matches!(a, Action::Settle) {
                        for (i, o) in w.observe().iter().enumerate() {
                            for l in &o.lines {
                                out.push(format!("{} <- {}", i, l));
                            }
                        }
                    }
                }
                out
            })
            .unwrap();
            for l in lines {
                println!("{}", l);
            }
        }
        "digests" => {
            // prints one line per run: index, event-log digest, steps (used by selftest to compare processes)
            let id = args.get(2).cloned().unwrap_or_default();
            let n: u64 = args.get(3).and_then(|s| s.parse().ok()).unwrap_or(100);
            let seed = env_u64("VERIF_SEED").unwrap_or(framework::DEFAULT_SEED);
            let jobs = env_u64("VERIF_JOBS").unwrap_or(16) as usize;
            let c = match find_check(&id) {
                Some(c) => c,
                None => std::process::exit(2),
            };
            let next = Arc::new(std::sync::atomic::AtomicU64::new(0));
            let results = Arc::new(std::sync::Mutex::new(std::collections::BTreeMap::new()));
            let mut hs = vec![];
            for _ in 0..jobs.max(1) {
                let (c, next, results) = (c.clone(), next.clone(), results.clone());
                hs.push(std::thread::spawn(move || loop {
                    let idx = next.fetch_add(1, std::sync::atomic::Ordering::SeqCst);
                    if idx >= n {
                        break;
                    }
                    let run_seed = rt::mix(rt::mix(seed, framework::hash_key(&[c.id()])), idx);
                    let t = c.gen(run_seed, idx, Tier::Quick);
                    let o = c.exec(&t);
                    if idx == 0 && std::env::var("VERIF_DUMP").is_ok() {
                        for (i, tl) in o.tails.iter().enumerate() {
                            for l in tl {
                                eprintln!("{} <- {}", i, l);
                            }
                        }
                    }
                    results.lock().unwrap().insert(idx, format!("{} {:x} {} {} {:?}", idx, o.digest, o.steps, o.vt_ms, o.violation.as_ref().map(|v| v.sig.clone())));
                }));
            }
            for h in hs {
                let _ = h.join();
            }
            for (_, l) in results.lock().unwrap().iter() {
                println!("{}", l);
            }
        }
        "selftest" => {
            let exe = std::env::current_exe().unwrap();
            let n = args.get(2).and_then(|s| s.parse::<u64>().ok()).unwrap_or(200);
            let mut bad = 0;
            // 1. interposition of entropy and wall clock is in effect
            let (e, c) = rt::run_sim(7, || async {
                let cfg = SimConfig::default();
                let mut w = World::new(&cfg).await;
                let a = w.open("10.0.0.1", false);
                w.apply(&Action::line(a, "NICK x")).await;
                w.apply(&Action::line(a, "USER x 0 * :x")).await;
                w.apply(&Action::line(a, "TIME")).await;
                w.settle().await;
                let _ = w.observe();
                let now = std::time::SystemTime::now().duration_since(std::time::UNIX_EPOCH).unwrap().as_secs() as i64;
                (rt::ENTROPY_CALLS.with(|x| x.get()), (now - rt::EPOCH0_SECS).abs() < 5)
            })
            .unwrap();
            println!("selftest interposition: getrandom calls answered from the seed = {}, wall clock virtual = {}", e, c);
            if e == 0 || !c {
                println!("SELFTEST-FAIL interposition not effective");
                bad += 1;
            }
            // 2. same seed => same event log, across processes and worker counts
            for id in ["C01", "C02", "C05", "C06", "C12", "C13", "C14", "C17", "C18", "C20"] {
                let mut outs = vec![];
                for jobs in ["1", "4", "16", "16"] {
                    let o = std::process::Command::new(&exe).args(["digests", id, &n.to_string()]).env("VERIF_JOBS", jobs).output();
                    match o {
                        Ok(o) => outs.push(String::from_utf8_lossy(&o.stdout).to_string()),
                        Err(e) => {
                            println!("SELFTEST-FAIL cannot run child: {}", e);
                            bad += 1;
                        }
                    }
                }
                let same = outs.windows(2).all(|w| w[0] == w[1]) && !outs.is_empty() && outs[0].lines().count() as u64 == n;
                let distinct: std::collections::HashSet<&str> = outs[0].lines().filter_map(|l| l.split(' ').nth(1)).collect();
                println!("selftest determinism {}: {} runs x 4 processes (jobs 1,4,16,16): {} ; {} distinct digests", id, n, if same { "identical" } else { "DIFFERENT" }, distinct.len());
                if !same {
                    bad += 1;
                    for (a, b) in outs[0].lines().zip(outs[1].lines()) {
                        if a != b {
                            println!("  first difference: {} | {}", a, b);
                            break;
                        }
                    }
                }
            }
            if bad > 0 {
                println!("SELFTEST-FAILED");
                std::process::exit(2);
            }
            println!("SELFTEST-OK");
        }
        "replay" => {
            let path = args.get(2).cloned().unwrap_or_default();
            match framework::read_replay(&path) {
                Ok((t, _)) => match find_check(&t.check) {
                    Some(c) => std::process::exit(framework::replay_file(c, &path)),
                    None => {
                        eprintln!("unknown check id {} in replay file", t.check);
                        std::process::exit(2);
                    }
                },
                Err(e) => {
                    eprintln!("{}", e);
                    std::process::exit(2);
                }
            }
        }
        _ => {
            eprintln!("usage: sircsim check <Cxx> [quick|thorough] | replay <file> | smoke [seed]");
            std::process::exit(2);
        }
    }
}
