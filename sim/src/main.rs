// sircsim - deterministic simulator + checkers for simple-irc-server.
// Crate root = the server's own modules (by #[path] into the repo working tree) + harness.
#![allow(dead_code)]
#![allow(unused_imports)]
#![allow(clippy::all)]

include!(concat!(env!("OUT_DIR"), "/repo_mods.rs"));

use command::*;
use config::*;
use state::*;
use utils::*;

mod gate;
mod net;
mod rt;
mod world;

use world::*;

fn smoke(seed: u64) -> String {
    rt::run_sim(seed, move || async move {
        let cfg = SimConfig::default();
        let mut w = World::new(&cfg).await;
        let mut log = String::new();
        let a = w.open("10.0.0.1", false);
        let b = w.open("10.0.0.2", false);
        let script: Vec<(usize, &str)> = vec![
            (a, "NICK alice"), (a, "USER alice 0 * :Alice A"),
            (b, "NICK bob"), (b, "USER bob 0 * :Bob B"),
            (a, "JOIN #x"), (b, "JOIN #x"), (a, "PRIVMSG #x :hello there"),
            (b, "NAMES #x"), (a, "WHOIS bob"), (a, "TIME"), (b, "QUIT"),
        ];
        for (c, l) in script {
            w.apply(&Action::line(c, l)).await;
            w.settle().await;
            let obs = w.observe();
            for (i, o) in obs.iter().enumerate() {
                for l in &o.lines {
                    log.push_str(&format!("{} <- {}\n", i, l));
                }
                if o.eof { log.push_str(&format!("{} EOF\n", i)); }
            }
        }
        log.push_str(&format!("digest {:x} vt {}ms\n", w.digest, rt::virtual_elapsed_ms()));
        log
    }).unwrap()
}

fn main() {
    let args: Vec<String> = std::env::args().collect();
    if args.len() >= 2 && args[1] == "smoke" {
        let seed = args.get(2).and_then(|s| s.parse().ok()).unwrap_or(1);
        print!("{}", smoke(seed));
        return;
    }
    eprintln!("usage: sircsim smoke [seed]");
    std::process::exit(2);
}
