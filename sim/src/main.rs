// sircsim - deterministic simulator + checkers for simple-irc-server.
// Crate root = the server's own modules (by #[path] into the repo working tree) + harness.
#![allow(dead_code)]
#![allow(unused_imports)]
#![allow(clippy::all)]

include!(concat!(env!("OUT_DIR"), "/repo_mods.rs"));

use command::*;
use config::*;
use state::*;
use utils::*;

mod c05;
mod c06;
mod c12;
mod c13;
mod c17;
mod c20;
mod canon;
mod framework;
mod gate;
mod gen;
mod irc;
mod model;
mod oracle;
mod stepchecks;
mod net;
mod rt;
mod world;

use framework::{Check, Tier};
use std::sync::Arc;
use world::*;

fn registry() -> Vec<Arc<dyn Check>> {
    let mut v: Vec<Arc<dyn Check>> = vec![Arc::new(c05::C05)];
    for id in ["C01", "C02", "C03", "C04", "C07", "C08", "C09", "C10", "C11", "C14", "C15", "C16", "C19"] {
        v.push(Arc::new(stepchecks::StepCheck { id, quick: 30_000, thorough: 1_500_000 }));
    }
    v.push(Arc::new(c06::C06));
    v.push(Arc::new(c17::C17));
    v.push(Arc::new(c12::C12));
    v.push(Arc::new(c13::C13));
    v.push(Arc::new(c20::C20));
    v
}

fn find_check(id: &str) -> Option<Arc<dyn Check>> {
    registry().into_iter().find(|c| c.id() == id)
}

fn smoke(seed: u64) -> String {
    rt::run_sim(seed, move || async move {
        let cfg = SimConfig::default();
        let mut w = World::new(&cfg).await;
        let mut log = String::new();
        let a = w.open("10.0.0.1", false);
        let b = w.open("10.0.0.2", false);
        let script: Vec<(usize, &str)> = vec![
            (a, "NICK alice"), (a, "USER alice 0 * :Alice A"),
            (b, "NICK bob"), (b, "USER bob 0 * :Bob B"),
            (a, "JOIN #x"), (b, "JOIN #x"), (a, "PRIVMSG #x :hello there"),
            (b, "NAMES #x"), (a, "WHOIS bob"), (a, "TIME"), (b, "QUIT"),
        ];
        for (c, l) in script {
            w.apply(&Action::line(c, l)).await;
            w.settle().await;
            let obs = w.observe();
            for (i, o) in obs.iter().enumerate() {
                for l in &o.lines {
                    log.push_str(&format!("{} <- {}\n", i, l));
                }
                if o.eof { log.push_str(&format!("{} EOF\n", i)); }
            }
        }
        log.push_str(&format!("digest {:x} vt {}ms\n", w.digest, rt::virtual_elapsed_ms()));
        log
    }).unwrap()
}

fn env_u64(k: &str) -> Option<u64> {
    std::env::var(k).ok().and_then(|v| v.trim().parse::<u64>().ok())
}

fn main() {
    let args: Vec<String> = std::env::args().collect();
    let cmd = args.get(1).map(|s| s.as_str()).unwrap_or("");
    match cmd {
        "smoke" => {
            let seed = args.get(2).and_then(|s| s.parse().ok()).unwrap_or(1);
            print!("{}", smoke(seed));
        }
        "check" => {
            let id = args.get(2).cloned().unwrap_or_default();
            let tier = match std::env::var("VERIF_TIER").ok().as_deref().or(args.get(3).map(|s| s.as_str())) {
                Some("thorough") => Tier::Thorough,
                _ => Tier::Quick,
            };
            let tier = match args.get(3).map(|s| s.as_str()) {
                Some("thorough") => Tier::Thorough,
                Some("quick") => Tier::Quick,
                _ => tier,
            };
            let seed = env_u64("VERIF_SEED").unwrap_or(framework::DEFAULT_SEED);
            let jobs = env_u64("VERIF_JOBS").unwrap_or(16) as usize;
            let runs = env_u64("VERIF_RUNS");
            match find_check(&id) {
                Some(c) => std::process::exit(framework::run_check(c, tier, seed, jobs.max(1), runs)),
                None => {
                    eprintln!("unknown check id {}", id);
                    std::process::exit(2);
                }
            }
        }
        "replay" => {
            let path = args.get(2).cloned().unwrap_or_default();
            match framework::read_replay(&path) {
                Ok((t, _)) => match find_check(&t.check) {
                    Some(c) => std::process::exit(framework::replay_file(c, &path)),
                    None => {
                        eprintln!("unknown check id {} in replay file", t.check);
                        std::process::exit(2);
                    }
                },
                Err(e) => {
                    eprintln!("{}", e);
                    std::process::exit(2);
                }
            }
        }
        _ => {
            eprintln!("usage: sircsim check <Cxx> [quick|thorough] | replay <file> | smoke [seed]");
            std::process::exit(2);
        }
    }
}
