// model.rs - executable reference model of the IRC rules the properties state.
// Plain data + a step function: (connection, input) -> expected observations.
// Written from the property statements; where they are silent the model tolerates
// (Optional / AnyOf / ambiguous) rather than demands.

use crate::canon::SEP;
use crate::irc::{self, glob, normal_mask};
use crate::world::{ChanCfg, SimConfig};
use std::collections::{BTreeMap, BTreeSet};

pub(crate) const fn pm(n: u32) -> u32 {
    1 << n
}
pub(crate) const P01: u32 = pm(1);
pub(crate) const P02: u32 = pm(2);
pub(crate) const P03: u32 = pm(3);
pub(crate) const P04: u32 = pm(4);
pub(crate) const P05: u32 = pm(5);
pub(crate) const P06: u32 = pm(6);
pub(crate) const P07: u32 = pm(7);
pub(crate) const P08: u32 = pm(8);
/// the server's line codec accepts at most this many bytes before the line feed
pub(crate) const MAX_LINE: usize = 2000;
pub(crate) const P09: u32 = pm(9);
pub(crate) const P10: u32 = pm(10);
pub(crate) const P11: u32 = pm(11);
pub(crate) const P12: u32 = pm(12);
pub(crate) const P13: u32 = pm(13);
pub(crate) const P14: u32 = pm(14);
pub(crate) const P15: u32 = pm(15);
pub(crate) const P16: u32 = pm(16);
pub(crate) const P17: u32 = pm(17);
pub(crate) const P18: u32 = pm(18);
pub(crate) const P19: u32 = pm(19);
pub(crate) const P20: u32 = pm(20);

pub(crate) fn props_names(mask: u32) -> Vec<String> {
    (1..=20).filter(|n| mask & pm(*n) != 0).map(|n| format!("C{:02}", n)).collect()
}

pub(crate) fn prop_bit(id: &str) -> u32 {
    id.trim_start_matches('C').parse::<u32>().map(pm).unwrap_or(0)
}

/// an expectation tagged with the properties whose statements it belongs to (R4)
#[derive(Clone, Debug, PartialEq)]
pub(crate) struct TExp {
    pub e: Exp,
    pub props: u32,
    /// for set-valued lines: properties concerned when only rank prefixes / flags differ
    pub props_rank: u32,
}

#[derive(Clone, Debug, PartialEq)]
pub(crate) enum Exp {
    Exact { c: usize, line: String },
    AtLeast1 { c: usize, line: String },
    AnyOf { c: usize, options: Vec<String> },
    Optional { c: usize, options: Vec<String> },
    OptionalPrefix { c: usize, prefix: String },
    /// exactly one line that starts with `prefix` (the rest is not specified by any property)
    OnePrefix { c: usize, prefix: String },
    /// a line "<head> <items joined by sep>" whose items must include `required` and may include `optional`;
    /// if `required` is empty the line may be absent
    ModeAnn { c: usize, head: String, required: Vec<String>, optional: Vec<String> },
}

impl Exp {
    pub(crate) fn conn(&self) -> usize {
        match self {
            Exp::Exact { c, .. }
            | Exp::AtLeast1 { c, .. }
            | Exp::AnyOf { c, .. }
            | Exp::Optional { c, .. }
            | Exp::OptionalPrefix { c, .. }
            | Exp::OnePrefix { c, .. }
            | Exp::ModeAnn { c, .. } => *c,
        }
    }
}

#[derive(Clone, Copy, Debug, Default, PartialEq, Eq, PartialOrd, Ord, Hash)]
pub(crate) struct Rank {
    pub q: bool,
    pub a: bool,
    pub o: bool,
    pub h: bool,
    pub v: bool,
}

impl Rank {
    pub(crate) fn is_protected(&self) -> bool {
        self.q || self.a
    }
    pub(crate) fn is_op(&self) -> bool {
        self.q || self.a || self.o
    }
    pub(crate) fn is_halfop(&self) -> bool {
        self.q || self.a || self.o || self.h
    }
    pub(crate) fn only_halfop(&self) -> bool {
        !self.q && !self.a && !self.o && self.h
    }
    pub(crate) fn is_voice(&self) -> bool {
        self.q || self.a || self.o || self.h || self.v
    }
    pub(crate) fn prefix(&self, multi: bool) -> String {
        let mut s = String::new();
        for (f, ch) in [(self.q, '~'), (self.a, '&'), (self.o, '@'), (self.h, '%'), (self.v, '+')] {
            if f && (multi || s.is_empty()) {
                s.push(ch);
            }
        }
        s
    }
    pub(crate) fn get(&self, l: char) -> bool {
        match l {
            'q' => self.q,
            'a' => self.a,
            'o' => self.o,
            'h' => self.h,
            'v' => self.v,
            _ => false,
        }
    }
    pub(crate) fn set(&mut self, l: char, val: bool) {
        match l {
            'q' => self.q = val,
            'a' => self.a = val,
            'o' => self.o = val,
            'h' => self.h = val,
            'v' => self.v = val,
            _ => {}
        }
    }
    pub(crate) fn code(&self) -> u8 {
        (self.q as u8) << 4 | (self.a as u8) << 3 | (self.o as u8) << 2 | (self.h as u8) << 1 | self.v as u8
    }
}

#[derive(Clone, Debug, Default)]
pub(crate) struct UModes {
    pub i: bool,
    pub o: bool,
    pub lo: bool,
    pub r: bool,
    pub w: bool,
}

impl UModes {
    pub(crate) fn is_oper(&self) -> bool {
        self.o || self.lo
    }
    pub(crate) fn changes(&self) -> String {
        let mut v = vec![];
        if self.i {
            v.push("+i");
        }
        if self.o {
            v.push("+o");
        }
        if self.lo {
            v.push("+O");
        }
        if self.r {
            v.push("+r");
        }
        if self.w {
            v.push("+w");
        }
        v.sort();
        v.join(",")
    }
}

#[derive(Clone, Debug)]
pub(crate) struct MUser {
    pub nick: String,
    pub user: String,
    pub host: String,
    pub real: String,
    pub conn: usize,
    pub modes: UModes,
    pub away: Option<String>,
    pub chans: BTreeSet<String>,
    pub invited: BTreeSet<String>,
    pub cfg_registered: bool,
}

impl MUser {
    pub(crate) fn src(&self) -> String {
        format!("{}!~{}@{}", self.nick, self.user, self.host)
    }
}

#[derive(Clone, Debug, Default)]
pub(crate) struct MChan {
    pub name: String,
    pub members: BTreeMap<String, Rank>,
    pub fi: bool,
    pub fm: bool,
    pub fs: bool,
    pub ft: bool,
    pub fnn: bool,
    pub key: Option<String>,
    pub limit: Option<usize>,
    pub ban: BTreeSet<String>,
    pub exc: BTreeSet<String>,
    pub invex: BTreeSet<String>,
    pub ban_who: BTreeMap<String, String>,
    pub topic: Option<(String, String)>, // (text, setter nick)
    pub preconfigured: bool,
    pub cfg: Option<ChanCfg>,
    /// some MODE change was accepted on this channel (its restrictions then stem from MODE: C08 "enforced from then on")
    pub moded: bool,
}

impl MChan {
    pub(crate) fn banned(&self, src: &str) -> bool {
        self.ban.iter().any(|b| glob(b, src)) && !self.exc.iter().any(|e| glob(e, src))
    }
    pub(crate) fn mode_items(&self) -> Vec<String> {
        let mut v = vec![];
        for (f, l) in [(self.fi, 'i'), (self.fm, 'm'), (self.fs, 's'), (self.ft, 't'), (self.fnn, 'n')] {
            if f {
                v.push(format!("+{}", l));
            }
        }
        if let Some(k) = &self.key {
            v.push(format!("+k {}", k));
        }
        if let Some(l) = self.limit {
            v.push(format!("+l {}", l));
        }
        for b in &self.ban {
            v.push(format!("+b {}", b));
        }
        for b in &self.exc {
            v.push(format!("+e {}", b));
        }
        for b in &self.invex {
            v.push(format!("+I {}", b));
        }
        for (n, r) in &self.members {
            for l in ['q', 'a', 'o', 'h', 'v'] {
                if r.get(l) {
                    v.push(format!("+{} {}", l, n));
                }
            }
        }
        v.sort();
        v
    }
}

#[derive(Clone, Debug, Default)]
pub(crate) struct MConn {
    pub ip: String,
    pub alive: bool,
    pub deaf: bool, // server's writes fail: nothing is observable on this connection any more
    pub nick: Option<String>,
    pub user: Option<String>,
    pub real: Option<String>,
    pub pass: Option<String>,
    pub cap_neg: bool,
    pub multi_prefix: bool,
    pub registered: bool,
    pub inbuf: Vec<u8>,
    pub refused: bool, // over max_connections
}

#[derive(Clone, Debug, Default)]
pub(crate) struct StepExp {
    pub exps: Vec<TExp>,
    /// properties attached to expectations pushed from now on
    pub cur: u32,
    pub cur_rank: u32,
    /// when non-zero: properties to which unexpected lines of this step are attributed
    pub extra_hint: u32,
    pub ambiguous: Option<String>,
    /// labels (verb/outcome) of what happened, for coverage
    pub labels: Vec<String>,
}

#[derive(Clone, Debug)]
pub(crate) struct Model {
    pub cfg: SimConfig,
    pub conns: Vec<MConn>,
    pub users: BTreeMap<String, MUser>,
    pub chans: BTreeMap<String, MChan>,
    pub history: BTreeMap<String, Vec<(String, String, String)>>,
    pub max_users: usize,
    pub server_quit: bool,
    /// (channel or nick, properties) touched by state changes since the oracle last drained it:
    /// used to attribute later probe discrepancies to the operations that could have caused them
    pub touched: Vec<(String, u32)>,
    /// burst mode only: ending a session and removing its user are two steps (see finish_teardown)
    pub defer_teardown: bool,
    pub pending_teardown: Vec<usize>,
    pub pending_kill: Vec<(usize, String, String)>,
}

fn split_cmd(line: &str) -> Option<irc::Line> {
    irc::parse(line)
}

impl Model {
    pub(crate) fn new(cfg: &SimConfig) -> Model {
        let mut chans = BTreeMap::new();
        for c in &cfg.channels {
            let mut ch = MChan { name: c.name.clone(), preconfigured: true, ..Default::default() };
            ch.fi = c.invite_only;
            ch.fm = c.moderated;
            ch.fs = c.secret;
            ch.ft = c.protected_topic;
            ch.fnn = c.no_external_messages;
            ch.key = c.key.clone();
            ch.limit = c.client_limit;
            ch.ban = c.ban.iter().cloned().collect();
            ch.exc = c.exception.iter().cloned().collect();
            ch.invex = c.invite_exception.iter().cloned().collect();
            ch.topic = c.topic.clone().map(|t| (t, String::new()));
            ch.cfg = Some(c.clone());
            chans.insert(c.name.clone(), ch);
        }
        Model { cfg: cfg.clone(), conns: vec![], users: BTreeMap::new(), chans, history: BTreeMap::new(), max_users: 0, server_quit: false, touched: vec![], defer_teardown: false, pending_teardown: vec![], pending_kill: vec![] }
    }

    pub(crate) fn live_conns(&self) -> usize {
        self.conns.iter().filter(|c| c.alive).count()
    }

    pub(crate) fn user_of_conn(&self, c: usize) -> Option<&MUser> {
        let cn = self.conns.get(c)?;
        if !cn.registered {
            return None;
        }
        cn.nick.as_ref().and_then(|n| self.users.get(n))
    }

    pub(crate) fn open(&mut self, ip: &str) -> StepExp {
        let full = self.cfg.max_connections.map_or(false, |m| self.live_conns() >= m);
        self.conns.push(MConn { ip: ip.to_string(), alive: !full, refused: full, ..Default::default() });
        let mut se = StepExp::default();
        se.labels.push(if full { "open/refused".into() } else { "open/served".into() });
        se
    }

    fn host_of(&self, c: usize) -> String {
        // the server prints the peer address through IpAddr's Display
        self.conns[c].ip.parse::<std::net::IpAddr>().map(|a| a.to_string()).unwrap_or_else(|_| self.conns[c].ip.clone())
    }

    fn push(&self, se: &mut StepExp, c: usize, line: String) {
        if self.conns[c].alive && !self.conns[c].deaf {
            se.exps.push(TExp { e: Exp::Exact { c, line }, props: se.cur, props_rank: se.cur_rank });
        }
    }
    fn push_e(&self, se: &mut StepExp, e: Exp) {
        let c = e.conn();
        if self.conns[c].alive && !self.conns[c].deaf {
            se.exps.push(TExp { e, props: se.cur, props_rank: se.cur_rank });
        }
    }
    fn to_nick(&self, se: &mut StepExp, nick: &str, line: String) {
        if let Some(u) = self.users.get(nick) {
            self.push(se, u.conn, line);
        }
    }

    // ------------------------------------------------------------------ input
    pub(crate) fn input(&mut self, c: usize, bytes: &[u8]) -> StepExp {
        let mut se = StepExp::default();
        if c >= self.conns.len() || !self.conns[c].alive {
            return se;
        }
        self.conns[c].inbuf.extend_from_slice(bytes);
        loop {
            if !self.conns[c].alive {
                break;
            }
            let pos = match self.conns[c].inbuf.iter().position(|&b| b == b'\n') {
                Some(p) if p <= MAX_LINE => p,
                None if self.conns[c].inbuf.len() <= MAX_LINE => break,
                _ => {
                    // more than 2000 bytes without a line end: answered with 417, then the codec's error ends the stream
                    // (the session ends like an EOF; C05/C06: "a fatal protocol error")
                    se.labels.push(format!("end/too_long/{}", if self.conns[c].registered { "registered" } else { "unregistered" }));
                    se.cur = P06 | P05;
                    self.push(&mut se, c, "417".into());
                    self.conns[c].inbuf.clear();
                    self.end_conn(c);
                    break;
                }
            };
            let mut line: Vec<u8> = self.conns[c].inbuf.drain(..=pos).collect();
            line.pop();
            if line.last() == Some(&b'\r') {
                line.pop();
            }
            match String::from_utf8(line) {
                Ok(s) => self.line(c, &s, &mut se),
                Err(_) => {
                    // bytes that are not valid text: the session ends (C05/C06: "a fatal protocol error")
                    se.labels.push(format!("end/bad_utf8/{}", if self.conns[c].registered { "registered" } else { "unregistered" }));
                    se.cur = P06 | P05;
                    self.push_e(&mut se, Exp::Optional { c, options: vec!["ERROR".into()] });
                    self.end_conn(c);
                    break;
                }
            }
        }
        se
    }

    pub(crate) fn close_write(&mut self, c: usize) -> StepExp {
        let mut se = StepExp::default();
        if c >= self.conns.len() || !self.conns[c].alive {
            return se;
        }
        // a pending partial line is never executed: the server's codec reports "bytes remaining on stream"
        // at EOF and the session ends
        if !self.conns[c].inbuf.is_empty() {
            self.conns[c].inbuf.clear();
            se.labels.push("end/eof_midline".into());
        }
        se.labels.push(format!("end/eof/{}", if self.conns[c].registered { "registered" } else { "unregistered" }));
        self.end_conn(c);
        se
    }

    pub(crate) fn reset(&mut self, c: usize) -> StepExp {
        let mut se = StepExp::default();
        if c >= self.conns.len() || !self.conns[c].alive {
            return se;
        }
        self.conns[c].inbuf.clear();
        se.labels.push(format!("end/reset/{}", if self.conns[c].registered { "registered" } else { "unregistered" }));
        self.conns[c].deaf = true;
        self.end_conn(c);
        se
    }

    pub(crate) fn break_writes(&mut self, c: usize) -> StepExp {
        let mut se = StepExp::default();
        if c < self.conns.len() && self.conns[c].alive {
            self.conns[c].deaf = true;
            se.labels.push("fault/half_open".into());
        }
        se
    }

    /// the connection ends (any reason): the user disappears
    pub(crate) fn end_conn(&mut self, c: usize) {
        if !self.conns[c].alive {
            return;
        }
        self.conns[c].alive = false;
        if self.defer_teardown && self.conns[c].registered {
            // burst mode: the session's own task removes the user a little later, as a separate step
            self.pending_teardown.push(c);
            return;
        }
        self.finish_teardown(c);
    }

    /// the second half of a session's end: the user disappears from the shared state
    pub(crate) fn finish_teardown(&mut self, c: usize) {
        self.pending_teardown.retain(|x| *x != c);
        if self.conns[c].registered {
            if let Some(n) = self.conns[c].nick.clone() {
                self.remove_user(&n);
            }
        }
        self.conns[c].registered = false;
    }

    fn remove_user(&mut self, nick: &str) {
        if let Some(u) = self.users.remove(nick) {
            self.touched.push((nick.to_string(), P06 | P19));
            for ch in &u.chans {
                self.touched.push((ch.clone(), P06 | P16));
                self.leave(ch, nick);
            }
            self.history.entry(nick.to_string()).or_default().push((u.user.clone(), u.host.clone(), u.real.clone()));
        }
    }

    fn leave(&mut self, chan: &str, nick: &str) {
        let mut gone = false;
        if let Some(ch) = self.chans.get_mut(chan) {
            ch.members.remove(nick);
            if ch.members.is_empty() && !ch.preconfigured {
                gone = true;
            }
        }
        if gone {
            self.chans.remove(chan);
        }
        if let Some(u) = self.users.get_mut(nick) {
            u.chans.remove(chan);
        }
    }

    // ------------------------------------------------------------------ one line
    fn line(&mut self, c: usize, raw: &str, se: &mut StepExp) {
        let l = match split_cmd(raw) {
            Some(l) => l,
            None => return, // empty line: ignored
        };
        let verb = l.cmd.to_ascii_uppercase();
        let p = &l.params;
        let registered = self.conns[c].registered;
        se.cur_rank = P08 | P16 | P15 | P09;
        se.cur = match verb.as_str() {
            "CAP" | "AUTHENTICATE" | "PASS" | "USER" => P03,
            "NICK" => {
                if registered {
                    P15 | P02 | P04
                } else {
                    P02 | P03
                }
            }
            "QUIT" => P06,
            "PING" | "PONG" => P17 | P18,
            "JOIN" => P07 | P04,
            "PART" => P04,
            "KICK" => P09 | P04,
            "TOPIC" | "INVITE" => P09,
            "NAMES" | "WHO" | "WHOIS" => P04 | P12,
            "LIST" => P16 | P12,
            "MODE" => P08,
            "PRIVMSG" | "NOTICE" => P01 | P10,
            "WHOWAS" => P06 | P15,
            "OPER" | "KILL" | "DIE" | "SQUIT" | "WALLOPS" | "STATS" => P11,
            "ISON" | "USERHOST" | "LUSERS" => P19,
            "MOTD" | "ADMIN" => P20,
            _ => 0,
        };
        match verb.as_str() {
            "CAP" | "AUTHENTICATE" | "PASS" | "NICK" | "USER" | "QUIT" => {}
            _ => {
                if !registered {
                    se.cur = P03;
                    if p.is_empty() && !matches!(verb.as_str(), "LUSERS" | "LIST" | "NAMES" | "MOTD" | "ADMIN" | "AWAY" | "DIE" | "VERSION" | "TIME" | "INFO" | "HELP" | "LINKS" | "REHASH" | "RESTART") {
                        // a malformed gated command: whether the syntax error or the gate is reported first is not specified
                        self.push_e(se, Exp::AnyOf { c, options: vec!["451".into(), format!("461 {}", verb)] });
                        se.labels.push(format!("{}/451_or_461", verb));
                        return;
                    }
                    self.push(se, c, "451".into());
                    se.labels.push(format!("{}/451", verb));
                    return;
                }
            }
        }
        match verb.as_str() {
            "CAP" => self.cap(c, p, se),
            "AUTHENTICATE" => self.push(se, c, "421 AUTHENTICATE".into()),
            "PASS" => {
                if p.is_empty() {
                    self.push(se, c, "461 PASS".into());
                } else if registered {
                    self.push(se, c, "462".into());
                } else {
                    self.conns[c].pass = Some(p[0].clone());
                    self.try_register(c, se);
                }
            }
            "NICK" => self.nick(c, p, se),
            "USER" => {
                if p.len() < 4 {
                    self.push(se, c, "461 USER".into());
                } else if !valid_name(&p[0]) {
                    self.push(se, c, "ERROR".into());
                } else if registered {
                    self.push(se, c, "462".into());
                } else {
                    self.conns[c].user = Some(p[0].clone());
                    self.conns[c].real = Some(p[3].clone());
                    self.try_register(c, se);
                }
            }
            "QUIT" => {
                self.push(se, c, "ERROR".into());
                se.labels.push(format!("end/quit/{}", if registered { "registered" } else { "unregistered" }));
                self.end_conn(c);
            }
            "PING" => {
                if p.is_empty() {
                    self.push(se, c, "461 PING".into());
                } else {
                    self.push(se, c, format!(":{} PONG {}", self.cfg.name, p[0]));
                }
            }
            "PONG" => {
                if p.is_empty() {
                    self.push(se, c, "461 PONG".into());
                }
            }
            "JOIN" => self.join(c, p, se),
            "PART" => self.part(c, p, se),
            "KICK" => self.kick(c, p, se),
            "TOPIC" => self.topic(c, p, l.had_trailing, se),
            "INVITE" => self.invite(c, p, se),
            "NAMES" => self.names(c, p, se),
            "LIST" => self.list(c, p, se),
            "MODE" => self.mode(c, p, se),
            "PRIVMSG" => self.msg(c, p, false, se),
            "NOTICE" => self.msg(c, p, true, se),
            "WHO" => self.who(c, p, se),
            "WHOIS" => self.whois(c, p, se),
            "WHOWAS" => self.whowas(c, p, se),
            "OPER" => self.oper(c, p, se),
            "KILL" => self.kill(c, p, se),
            "DIE" => self.die(c, p.get(0).cloned(), se),
            "SQUIT" => {
                if p.len() < 2 {
                    self.push(se, c, "461 SQUIT".into());
                } else if !p[0].contains('.') {
                    self.push(se, c, "ERROR".into());
                } else if p[0] != self.cfg.name {
                    self.push(se, c, "400 SQUIT".into());
                } else {
                    self.die(c, Some(p[1].clone()), se)
                }
            }
            "WALLOPS" => self.wallops(c, p, se),
            "STATS" => {
                let u = self.user_of_conn(c).unwrap().clone();
                if p.is_empty() {
                    self.push(se, c, "461 STATS".into());
                } else if p[0].len() != 1 || !"chiklmouy".contains(p[0].as_str()) {
                    self.push(se, c, "ERROR".into());
                } else if p.len() > 1 {
                    self.opaque(c, "STATS+server", se);
                } else if u.modes.is_oper() {
                    self.push_e(se, Exp::OptionalPrefix { c, prefix: "212 ".into() });
                    self.push_e(se, Exp::Optional { c, options: vec!["242".into()] });
                    self.push(se, c, format!("219 {}", p[0]));
                    se.labels.push("STATS/ok".into());
                } else {
                    self.push(se, c, "481".into());
                    se.labels.push("STATS/481".into());
                }
            }
            "AWAY" => {
                let nick = self.conns[c].nick.clone().unwrap();
                self.touched.push((nick.clone(), P10 | P19));
                let u = self.users.get_mut(&nick).unwrap();
                if let Some(t) = p.get(0) {
                    u.away = Some(t.clone());
                    self.push(se, c, "306".into());
                } else {
                    u.away = None;
                    self.push(se, c, "305".into());
                }
            }
            "ISON" => {
                if p.is_empty() {
                    self.push(se, c, "461 ISON".into());
                } else {
                    for chunk in p.chunks(20) {
                        let mut v: Vec<&str> = chunk.iter().filter(|n| self.users.contains_key(n.as_str())).map(|s| s.as_str()).collect();
                        v.sort();
                        self.push(se, c, format!("303 {}", v.join(" ")));
                    }
                    se.labels.push("ISON".into());
                }
            }
            "USERHOST" => {
                if p.is_empty() {
                    self.push(se, c, "461 USERHOST".into());
                } else if p.iter().any(|n| !valid_name(n)) {
                    self.push(se, c, "ERROR".into());
                } else {
                    for chunk in p.chunks(20) {
                        let mut v: Vec<String> = chunk
                            .iter()
                            .filter_map(|n| self.users.get(n.as_str()))
                            .map(|u| {
                                format!(
                                    "{}{}={}~{}@{}",
                                    u.nick,
                                    if u.modes.is_oper() { "*" } else { "" },
                                    if u.away.is_some() { '-' } else { '+' },
                                    u.user,
                                    u.host
                                )
                            })
                            .collect();
                        v.sort();
                        self.push(se, c, format!("302 {}", v.join(" ")));
                    }
                    se.labels.push("USERHOST".into());
                }
            }
            "LUSERS" => {
                self.lusers(c, se);
                se.labels.push("LUSERS".into());
            }
            "MOTD" => {
                if p.is_empty() {
                    self.motd(c, se)
                } else {
                    self.opaque(c, "MOTD+target", se)
                }
            }
            "ADMIN" => {
                if p.is_empty() {
                    self.push(se, c, "256".into());
                    self.push(se, c, format!("257 :{}", self.cfg.admin_info));
                    if let Some(i) = &self.cfg.admin_info2 {
                        self.push(se, c, format!("258 :{}", i));
                    }
                    if let Some(i) = &self.cfg.admin_email {
                        self.push(se, c, format!("259 :{}", i));
                    }
                } else {
                    self.opaque(c, "ADMIN+target", se)
                }
            }
            "VERSION" | "TIME" | "INFO" | "HELP" | "LINKS" | "CONNECT" | "REHASH" | "RESTART" => {
                // opaque verbs: any reply to the sender, no state change, nothing to anybody else
                se.cur = 0;
                self.push_e(se, Exp::OptionalPrefix { c, prefix: String::new() });
                se.labels.push(format!("{}/opaque", verb));
            }
            other if !other.is_ascii() => {
                // commands are matched case-insensitively in ASCII only: a verb with a non-ASCII letter is unknown
                se.cur = P13;
                self.push_e(se, Exp::OnePrefix { c, prefix: "421 ".into() });
                se.labels.push("unknown_verb/non_ascii".into());
            }
            other => {
                se.ambiguous = Some(format!("verb {} is not modelled", other));
            }
        }
    }

    /// a form whose reply the properties do not define (remote-server targets): any reply to the sender,
    /// no state change, nothing to anybody else
    fn opaque(&self, c: usize, what: &str, se: &mut StepExp) {
        se.cur = 0;
        self.push_e(se, Exp::OptionalPrefix { c, prefix: String::new() });
        se.labels.push(format!("{}/opaque", what));
    }

    // ------------------------------------------------------------------ registration
    fn cap(&mut self, c: usize, p: &[String], se: &mut StepExp) {
        if p.is_empty() {
            self.push(se, c, "461 CAP".into());
            return;
        }
        let srv = self.cfg.name.clone();
        match p[0].to_ascii_uppercase().as_str() {
            "LS" => {
                if let Some(v) = p.get(1) {
                    match v.parse::<u32>() {
                        Ok(n) if n >= 302 => {}
                        _ => {
                            self.push(se, c, "ERROR".into());
                            return;
                        }
                    }
                }
                self.conns[c].cap_neg = true;
                self.push_e(se, Exp::OnePrefix { c, prefix: format!(":{} CAP *{}LS", srv, SEP) });
            }
            "LIST" => {
                let caps = if self.conns[c].multi_prefix { "multi-prefix" } else { "" };
                self.push(se, c, format!(":{} CAP *{}LIST{}{}", srv, SEP, SEP, caps));
            }
            "REQ" => {
                self.conns[c].cap_neg = true;
                if let Some(list) = p.get(1) {
                    let caps: Vec<&str> = list.split(' ').filter(|w| !w.is_empty()).collect();
                    let ok = caps.iter().all(|x| *x == "multi-prefix");
                    if ok {
                        if !caps.is_empty() {
                            self.conns[c].multi_prefix = true;
                        }
                        self.push(se, c, format!(":{} CAP *{}ACK{}{}", srv, SEP, SEP, caps.join(" ")));
                    } else {
                        self.push(se, c, format!(":{} CAP *{}NAK{}{}", srv, SEP, SEP, caps.join(" ")));
                    }
                }
            }
            "END" => {
                self.conns[c].cap_neg = false;
                if !self.conns[c].registered {
                    self.try_register(c, se);
                }
            }
            _ => self.push(se, c, "ERROR".into()),
        }
    }

    fn nick(&mut self, c: usize, p: &[String], se: &mut StepExp) {
        if p.is_empty() {
            self.push(se, c, "461 NICK".into());
            return;
        }
        let new = p[0].clone();
        if !valid_name(&new) {
            self.push(se, c, "ERROR".into());
            se.labels.push("NICK/invalid".into());
            return;
        }
        if !self.conns[c].registered {
            if self.users.contains_key(&new) {
                self.push(se, c, format!("433 {}", new));
                se.labels.push("NICK/unreg/433".into());
            } else {
                self.conns[c].nick = Some(new);
                se.labels.push("NICK/unreg/set".into());
                self.try_register(c, se);
            }
            return;
        }
        let old = self.conns[c].nick.clone().unwrap();
        if new == old {
            // R3: NICK to one's own nick - nothing required
            let osrc = self.users[&old].src();
            self.push_e(se, Exp::Optional { c, options: vec![format!(":{} NICK {}", osrc, new)] });
            se.labels.push("NICK/own".into());
            return;
        }
        if self.users.contains_key(&new) {
            se.cur = P15 | P02;
            self.push(se, c, format!("433 {}", new));
            se.labels.push("NICK/433".into());
            // a refused change must leave both users exactly as they were: what later probes show about either
            // of them is this refusal's business too
            self.touched.push((new.clone(), P15 | P02));
            self.touched.push((old.clone(), P15 | P02));
            return;
        }
        let mut u = self.users.remove(&old).unwrap();
        let osrc = u.src();
        self.touched.push((old.clone(), P15));
        self.touched.push((new.clone(), P15));
        for chn in &u.chans {
            self.touched.push((chn.clone(), P15));
        }
        self.history.entry(old.clone()).or_default().push((u.user.clone(), u.host.clone(), u.real.clone()));
        u.nick = new.clone();
        let mut peers: BTreeSet<usize> = BTreeSet::new();
        peers.insert(c);
        for chn in &u.chans {
            if let Some(ch) = self.chans.get_mut(chn) {
                if let Some(r) = ch.members.remove(&old) {
                    ch.members.insert(new.clone(), r);
                }
                for m in ch.members.keys() {
                    if m != &new {
                        if let Some(mu) = self.users.get(m) {
                            peers.insert(mu.conn);
                        }
                    }
                }
            }
        }
        self.users.insert(new.clone(), u);
        self.conns[c].nick = Some(new.clone());
        let line = format!(":{} NICK {}", osrc, new);
        let all: Vec<usize> = self.users.values().map(|x| x.conn).collect();
        for x in all {
            if peers.contains(&x) {
                self.push(se, x, line.clone());
            } else {
                // this server tells everybody; the property requires self + channel peers only
                self.push_e(se, Exp::Optional { c: x, options: vec![line.clone()] });
            }
        }
        se.labels.push("NICK/changed".into());
    }

    fn try_register(&mut self, c: usize, se: &mut StepExp) {
        let cn = self.conns[c].clone();
        if cn.cap_neg {
            return;
        }
        let (nick, user) = match (cn.nick.clone(), cn.user.clone()) {
            (Some(n), Some(u)) => (n, u),
            _ => return,
        };
        let host = self.host_of(c);
        let src = format!("{}!~{}@{}", nick, user, host);
        let mut cfg_registered = false;
        let mut mask_user = false;
        let mut required: Option<String> = self.cfg.password.clone();
        if let Some(uc) = self.cfg.users.iter().rev().find(|u| u.name == user) {
            // (the last entry with that name wins, as with a name -> index map)
            if uc.mask.is_some() {
                mask_user = true;
            }
            if let Some(m) = &uc.mask {
                if !glob(m, &src) {
                    se.cur |= P14;
                    se.extra_hint |= P14 | P03;
                    self.push(se, c, "ERROR".into());
                    se.labels.push("reg/mask_mismatch".into());
                    return;
                }
            }
            cfg_registered = true;
            if uc.password.is_some() {
                required = uc.password.clone();
            }
        }
        if let Some(req) = required {
            if cn.pass.as_deref() != Some(req.as_str()) {
                self.push(se, c, "464".into());
                se.labels.push(if cn.pass.is_some() { "reg/464_wrong".into() } else { "reg/464_missing".into() });
                self.end_conn(c);
                return;
            }
        }
        if self.users.contains_key(&nick) {
            se.cur = P02 | P03;
            self.push(se, c, format!("433 {}", nick));
            se.labels.push("reg/433_at_completion".into());
            return;
        }
        let d = &self.cfg.default_user_modes;
        let modes = UModes { i: d.invisible, o: d.oper, lo: d.local_oper, r: d.registered || cfg_registered, w: d.wallops };
        let u = MUser {
            nick: nick.clone(),
            user: user.clone(),
            host: host.clone(),
            real: cn.real.clone().unwrap_or_default(),
            conn: c,
            modes: modes.clone(),
            away: None,
            chans: BTreeSet::new(),
            invited: BTreeSet::new(),
            cfg_registered,
        };
        self.users.insert(nick.clone(), u);
        self.touched.push((nick.clone(), P03 | P02 | P19));
        self.conns[c].registered = true;
        if self.users.len() > self.max_users {
            self.max_users = self.users.len();
        }
        se.cur = P03 | P20 | P02 | if mask_user { P14 } else { 0 };
        self.push(se, c, format!("001 :Welcome to the {} Network, {}", self.cfg.network, src));
        // 002-005 are customary, not required by any property (their number and content are the server's choice)
        self.push_e(se, Exp::Optional { c, options: vec!["002".into(), "003".into(), "004".into(), "005".into()] });
        se.cur = P19 | P03;
        if self.defer_teardown {
            // burst mode: the welcome's statistics are produced by a separate read of the state after the user was
            // added ("as if the client had sent LUSERS"), so other commands may take effect in between: the figures
            // are not pinned to the instant of registration there (explicit LUSERS commands and the probes after the
            // burst are exact)
            for pfx in ["251 ", "252 ", "254 ", "255 ", "265 ", "266 "] {
                self.push_e(se, Exp::OnePrefix { c, prefix: pfx.into() });
            }
            self.push_e(se, Exp::Optional { c, options: vec!["253".into()] });
        } else {
            self.lusers(c, se);
        }
        se.cur = P20 | P03;
        self.motd(c, se);
        se.cur = P11 | P20 | P03;
        // the server shows the initial user modes; a later MODE query is what the properties rely on
        self.push_e(se, Exp::Optional { c, options: vec![format!("221 {}", modes.changes())] });
        se.labels.push(format!("reg/ok{}", if cfg_registered { "/cfguser" } else { "" }));
    }

    fn lusers(&self, c: usize, se: &mut StepExp) {
        let inv = self.users.values().filter(|u| u.modes.i).count();
        let ops = self.users.values().filter(|u| u.modes.is_oper()).count();
        let n = self.users.len();
        self.push(se, c, format!("251 {} {}", n - inv, inv));
        self.push(se, c, format!("252 {}", ops));
        self.push_e(se, Exp::Optional { c, options: vec!["253".into()] });
        self.push(se, c, format!("254 {}", self.chans.len()));
        self.push(se, c, format!("255 {}", n));
        self.push(se, c, format!("265 {} {}", n, self.max_users));
        self.push(se, c, format!("266 {} {}", n, self.max_users));
    }

    fn motd(&self, c: usize, se: &mut StepExp) {
        self.push_e(se, Exp::Optional { c, options: vec!["375".into(), "376".into()] });
        self.push(se, c, format!("372 :{}", self.cfg.motd));
    }

    // ------------------------------------------------------------------ channels
    fn names_line(&self, asker: usize, ch: &MChan) -> Option<String> {
        let an = self.conns[asker].nick.clone().unwrap_or_default();
        let member = ch.members.contains_key(&an);
        if ch.fs && !member {
            return None;
        }
        let multi = self.conns[asker].multi_prefix;
        let mut v: Vec<String> = ch
            .members
            .iter()
            .filter(|(n, _)| member || !self.users.get(*n).map_or(false, |u| u.modes.i))
            .map(|(n, r)| format!("{}{}", r.prefix(multi), n))
            .collect();
        if v.is_empty() {
            return None;
        }
        v.sort();
        Some(format!("353 {} {} {}", if ch.fs { "@" } else { "=" }, ch.name, v.join(" ")))
    }

    /// the six admission conditions of C07; returns the numerics of the violated ones
    pub(crate) fn join_violations(&self, nick: &str, ch: &MChan, key: Option<&str>, joined_so_far: usize) -> Vec<&'static str> {
        let u = &self.users[nick];
        let src = u.src();
        let mut v = vec![];
        if let Some(k) = &ch.key {
            if key != Some(k.as_str()) {
                v.push("475");
            }
        }
        if ch.banned(&src) {
            v.push("474");
        }
        if ch.fi && !u.invited.contains(&ch.name) && !ch.invex.iter().any(|m| glob(m, &src)) {
            v.push("473");
        }
        if let Some(l) = ch.limit {
            if ch.members.len() >= l {
                v.push("471");
            }
        }
        if let Some(mj) = self.cfg.max_joins {
            if joined_so_far >= mj {
                v.push("405");
            }
        }
        v
    }

    fn join(&mut self, c: usize, p: &[String], se: &mut StepExp) {
        if p.is_empty() {
            self.push(se, c, "461 JOIN".into());
            return;
        }
        let nick = self.conns[c].nick.clone().unwrap();
        let names: Vec<String> = p[0].split(',').map(|s| s.to_string()).collect();
        let keys: Option<Vec<String>> = p.get(1).map(|k| k.split(',').map(|s| s.to_string()).collect());
        if let Some(k) = &keys {
            if k.len() != names.len() {
                self.push(se, c, "ERROR".into());
                return;
            }
        }
        if names.iter().any(|n| !valid_chan(n)) {
            self.push(se, c, "ERROR".into());
            return;
        }
        let mut seen = BTreeSet::new();
        let mut repeated: BTreeSet<String> = BTreeSet::new();
        for n in &names {
            if !seen.insert(n.clone()) {
                // a channel named twice in one JOIN: the statement does not say what the second mention does
                // (R3: as for a channel one is already on - any reply, no further state change)
                if self.cfg.max_joins.is_some() {
                    se.ambiguous = Some("JOIN list with a repeated channel under a max_joins quota".into());
                    return;
                }
                repeated.insert(n.clone());
            }
        }
        // decisions are taken against the state before the command (as one atomic command)
        let mut count = self.users[&nick].chans.len();
        let mut decisions: Vec<(String, bool)> = vec![];
        let mut mask_chans: BTreeSet<String> = BTreeSet::new();
        let mut moded_chans: BTreeSet<String> = BTreeSet::new();
        let mut first_seen: BTreeSet<String> = BTreeSet::new();
        for (i, name) in names.iter().enumerate() {
            let key = keys.as_ref().map(|k| k[i].as_str());
            if !first_seen.insert(name.clone()) {
                se.labels.push("JOIN/repeated_in_list".into());
                continue;
            }
            match self.chans.get(name) {
                Some(ch) if ch.members.contains_key(&nick) => {
                    // R3: already a member - any refusal numeric or nothing; no state change
                    let opts: Vec<String> = ["475", "474", "473", "471", "405"].iter().map(|n| format!("{} {}", n, name)).collect();
                    self.push_e(se, Exp::Optional { c, options: opts });
                    se.labels.push("JOIN/already_member".into());
                    decisions.push((name.clone(), false));
                }
                Some(ch) => {
                    let v = self.join_violations(&nick, ch, key, count);
                    let masks_involved = !ch.ban.is_empty() || (ch.fi && !ch.invex.is_empty());
                    if masks_involved {
                        mask_chans.insert(name.clone());
                    }
                    let p8 = if ch.moded && (ch.key.is_some() || ch.limit.is_some() || ch.fi || !ch.ban.is_empty()) { P08 } else { 0 };
                    if p8 != 0 {
                        moded_chans.insert(name.clone());
                    }
                    if v.is_empty() {
                        decisions.push((name.clone(), true));
                        count += 1;
                        se.labels.push(format!(
                            "JOIN/ok/k{}b{}i{}l{}",
                            ch.key.is_some() as u8,
                            (!ch.ban.is_empty()) as u8,
                            ch.fi as u8,
                            ch.limit.is_some() as u8
                        ));
                    } else {
                        let opts: Vec<String> = v.iter().map(|n| format!("{} {}", n, name)).collect();
                        se.cur = P07 | p8 | if masks_involved { P14 } else { 0 };
                        if masks_involved {
                            se.extra_hint |= P07 | P14;
                        }
                        se.extra_hint |= p8;
                        self.push_e(se, Exp::AnyOf { c, options: opts });
                        se.cur = P07 | P04;
                        se.labels.push(format!("JOIN/refused/{}", v.join("+")));
                        decisions.push((name.clone(), false));
                    }
                }
                None => {
                    if self.cfg.max_joins.map_or(false, |mj| count >= mj) {
                        se.cur = P07 | P16;
                        self.push(se, c, format!("405 {}", name));
                        se.cur = P07 | P04;
                        se.labels.push("JOIN/create_refused/405".into());
                        decisions.push((name.clone(), false));
                    } else {
                        decisions.push((name.clone(), true));
                        count += 1;
                        se.labels.push("JOIN/create".into());
                    }
                }
            }
        }
        let src = self.users[&nick].src();
        // apply all, then announce (members of a channel see each JOIN once)
        for (name, ok) in &decisions {
            if !*ok {
                continue;
            }
            let existed = self.chans.contains_key(name);
            self.touched.push((name.clone(), P07 | P04 | if existed { 0 } else { P16 }));
            let ch = self.chans.entry(name.clone()).or_insert_with(|| MChan { name: name.clone(), ..Default::default() });
            let mut r = Rank::default();
            if !existed {
                r.q = true;
                r.o = true;
            } else if let Some(cfg) = &ch.cfg {
                r.q = cfg.founders.contains(&nick);
                r.a = cfg.protecteds.contains(&nick);
                r.o = cfg.operators.contains(&nick);
                r.h = cfg.half_operators.contains(&nick);
                r.v = cfg.voices.contains(&nick);
            }
            ch.members.insert(nick.clone(), r);
            let u = self.users.get_mut(&nick).unwrap();
            u.chans.insert(name.clone());
            u.invited.remove(name);
        }
        let created: BTreeSet<String> = decisions.iter().filter(|(n, ok)| *ok && self.chans.get(n).map_or(false, |c| c.members.len() == 1 && !c.preconfigured)).map(|(n, _)| n.clone()).collect();
        for (name, ok) in &decisions {
            if !*ok {
                continue;
            }
            let ch = self.chans[name].clone();
            se.cur = P07 | P04 | if created.contains(name) || ch.preconfigured { P16 } else { 0 } | if mask_chans.contains(name) { P14 } else { 0 } | if moded_chans.contains(name) { P08 } else { 0 };
            se.cur_rank = P08 | P16 | P15 | P09 | P07;
            let jl = format!(":{} JOIN {}", src, name);
            self.push(se, c, jl.clone());
            if let Some((t, _)) = &ch.topic {
                self.push(se, c, format!("332 {}{}{}", name, SEP, t));
                self.push_e(se, Exp::Optional { c, options: vec![format!("333 {}", name)] });
            }
            if let Some(nl) = self.names_line(c, &ch) {
                self.push(se, c, nl);
            }
            self.push(se, c, format!("366 {}", name));
            for m in ch.members.keys() {
                if m != &nick {
                    self.to_nick(se, m, jl.clone());
                }
            }
            if repeated.contains(name) {
                let mut opts = vec![jl.clone(), format!("366 {}", name)];
                if let Some((t, _)) = &ch.topic {
                    opts.push(format!("332 {}{}{}", name, SEP, t));
                }
                if let Some(nl) = self.names_line(c, &ch) {
                    opts.push(nl);
                }
                for n in ["475", "474", "473", "471", "405"] {
                    opts.push(format!("{} {}", n, name));
                }
                self.push_e(se, Exp::Optional { c, options: opts });
                for m in ch.members.keys() {
                    if m != &nick {
                        if let Some(u) = self.users.get(m) {
                            let uc = u.conn;
                            self.push_e(se, Exp::Optional { c: uc, options: vec![jl.clone()] });
                        }
                    }
                }
            }
        }
        for name in &repeated {
            if !decisions.iter().any(|(n, ok)| n == name && *ok) {
                // refused the first time: the repeat may be refused again
                let opts: Vec<String> = ["475", "474", "473", "471", "405"].iter().map(|n| format!("{} {}", n, name)).collect();
                self.push_e(se, Exp::Optional { c, options: opts });
            }
        }
    }

    fn part(&mut self, c: usize, p: &[String], se: &mut StepExp) {
        if p.is_empty() {
            self.push(se, c, "461 PART".into());
            return;
        }
        let nick = self.conns[c].nick.clone().unwrap();
        let src = self.users[&nick].src();
        let names: Vec<String> = p[0].split(',').map(|s| s.to_string()).collect();
        if names.iter().any(|n| !valid_chan(n)) {
            self.push(se, c, "ERROR".into());
            return;
        }
        for name in names {
            match self.chans.get(&name) {
                None => {
                    self.push(se, c, format!("403 {}", name));
                    se.labels.push("PART/403".into());
                }
                Some(ch) if !ch.members.contains_key(&nick) => {
                    self.push(se, c, format!("442 {}", name));
                    se.labels.push("PART/442".into());
                }
                Some(ch) => {
                    let line = match p.get(1) {
                        Some(r) => format!(":{} PART {}{}{}", src, name, SEP, r),
                        None => format!(":{} PART {}", src, name),
                    };
                    let members: Vec<String> = ch.members.keys().cloned().collect();
                    se.labels.push(format!("PART/ok/{}", if members.len() == 1 { "last" } else { "notlast" }));
                    for m in members {
                        self.to_nick(se, &m, line.clone());
                    }
                    self.touched.push((name.clone(), P04 | P16));
                    self.leave(&name, &nick);
                }
            }
        }
    }

    fn kick(&mut self, c: usize, p: &[String], se: &mut StepExp) {
        if p.len() < 2 {
            self.push(se, c, "461 KICK".into());
            return;
        }
        let nick = self.conns[c].nick.clone().unwrap();
        let src = self.users[&nick].src();
        let chan = p[0].clone();
        let victims: Vec<String> = p[1].split(',').map(|s| s.to_string()).collect();
        if !valid_chan(&chan) || victims.iter().any(|v| !valid_name(v)) {
            self.push(se, c, "ERROR".into());
            return;
        }
        let ch = match self.chans.get(&chan) {
            None => {
                self.push(se, c, format!("403 {}", chan));
                se.labels.push("KICK/403".into());
                return;
            }
            Some(ch) => ch.clone(),
        };
        let me = match ch.members.get(&nick) {
            None => {
                self.push(se, c, format!("442 {}", chan));
                se.labels.push("KICK/442".into());
                return;
            }
            Some(r) => *r,
        };
        let p8 = if ch.moded { P08 } else { 0 };
        if !me.is_halfop() {
            se.cur = P09 | p8;
            self.push(se, c, format!("482 {}", chan));
            se.labels.push("KICK/482".into());
            return;
        }
        if p8 != 0 {
            se.extra_hint |= P08 | P09 | P04;
        }
        let mut kicked: Vec<String> = vec![];
        for v in &victims {
            match ch.members.get(v) {
                Some(r) if !kicked.contains(v) => {
                    if r.is_protected() || (me.only_halfop() && r.is_halfop()) {
                        // refused: the property fixes only that nothing happens; numeric is the server's choice
                        se.cur = P09 | p8;
                        self.push_e(se, Exp::AnyOf { c, options: vec!["972".into(), format!("482 {}", chan)] });
                        se.labels.push(format!("KICK/refused/actor{}victim{}", me.code(), r.code()));
                    } else {
                        kicked.push(v.clone());
                        se.labels.push(format!("KICK/ok/actor{}victim{}{}", me.code(), r.code(), if v == &nick { "/self" } else { "" }));
                    }
                }
                _ => {
                    se.cur = P09;
                    self.push(se, c, format!("441 {} {}", v, chan));
                    se.labels.push("KICK/441".into());
                }
            }
        }
        let comment_given = p.get(2).is_some();
        let comment = p.get(2).cloned().unwrap_or_else(|| "Kicked".to_string());
        se.cur = P09 | P04 | p8;
        for v in &kicked {
            self.touched.push((chan.clone(), P09 | P04 | P16));
            self.touched.push((v.clone(), P09));
            self.leave(&chan, v);
        }
        let remaining: Vec<String> = self.chans.get(&chan).map(|ch| ch.members.keys().cloned().collect()).unwrap_or_default();
        for v in &kicked {
            let line = format!(":{} KICK {}{}{}{}{}", src, chan, SEP, v, SEP, comment);
            let mut rcpt: Vec<String> = remaining.clone();
            rcpt.push(v.clone());
            for m in &rcpt {
                if comment_given {
                    self.to_nick(se, m, line.clone());
                } else if let Some(u) = self.users.get(m) {
                    // without a comment the server supplies one of its own choosing
                    let uc = u.conn;
                    self.push_e(se, Exp::OnePrefix { c: uc, prefix: format!(":{} KICK {}{}{}", src, chan, SEP, v) });
                }
            }
        }
        // victims removed earlier in the same command may or may not see later kicks: not specified
        if kicked.len() > 1 {
            for (i, v) in kicked.iter().enumerate() {
                for (j, w) in kicked.iter().enumerate() {
                    if i != j {
                        if let Some(u) = self.users.get(v) {
                            let line = format!(":{} KICK {}{}{}{}{}", src, chan, SEP, w, SEP, comment);
                            self.push_e(se, Exp::Optional { c: u.conn, options: vec![line] });
                        }
                    }
                }
            }
        }
    }

    fn topic(&mut self, c: usize, p: &[String], _tr: bool, se: &mut StepExp) {
        if p.is_empty() {
            self.push(se, c, "461 TOPIC".into());
            return;
        }
        let nick = self.conns[c].nick.clone().unwrap();
        let src = self.users[&nick].src();
        let chan = p[0].clone();
        if !valid_chan(&chan) {
            self.push(se, c, "ERROR".into());
            return;
        }
        let ch = match self.chans.get(&chan) {
            None => {
                self.push(se, c, format!("403 {}", chan));
                se.labels.push("TOPIC/403".into());
                return;
            }
            Some(ch) => ch.clone(),
        };
        let me = ch.members.get(&nick).copied();
        if let Some(t) = p.get(1) {
            match me {
                None => {
                    self.push(se, c, format!("442 {}", chan));
                    se.labels.push("TOPIC/set/442".into());
                }
                Some(r) if ch.ft && !r.is_halfop() => {
                    self.push(se, c, format!("482 {}", chan));
                    se.labels.push("TOPIC/set/482".into());
                }
                Some(r) => {
                    self.touched.push((chan.clone(), P09));
                    let chm = self.chans.get_mut(&chan).unwrap();
                    chm.topic = if t.is_empty() { None } else { Some((t.clone(), nick.clone())) };
                    let line = format!(":{} TOPIC {}", src, p.join(SEP));
                    for m in ch.members.keys() {
                        self.to_nick(se, m, line.clone());
                    }
                    se.labels.push(format!("TOPIC/set/ok/t{}rank{}{}", ch.ft as u8, r.code(), if t.is_empty() { "/clear" } else { "" }));
                }
            }
        } else {
            match me {
                None => {
                    // a non-member asking for the topic: the statement does not say; this server answers 442
                    let mut opts = vec![format!("442 {}", chan), format!("331 {}", chan)];
                    if let Some((t, n)) = &ch.topic {
                        opts.push(format!("332 {}{}{}", chan, SEP, t));
                        let _ = n;
                        opts.push(format!("333 {}", chan));
                    }
                    if ch.fs {
                        opts = vec![format!("442 {}", chan), format!("403 {}", chan)];
                    }
                    self.push_e(se, Exp::AnyOf { c, options: opts });
                    se.labels.push("TOPIC/query/outsider".into());
                }
                Some(_) => {
                    if let Some((t, n)) = &ch.topic {
                        self.push(se, c, format!("332 {}{}{}", chan, SEP, t));
                        let _ = n;
                        self.push_e(se, Exp::Optional { c, options: vec![format!("333 {}", chan)] });
                        se.labels.push("TOPIC/query/332".into());
                    } else {
                        self.push(se, c, format!("331 {}", chan));
                        se.labels.push("TOPIC/query/331".into());
                    }
                }
            }
        }
    }

    fn invite(&mut self, c: usize, p: &[String], se: &mut StepExp) {
        if p.len() < 2 {
            self.push(se, c, "461 INVITE".into());
            return;
        }
        let nick = self.conns[c].nick.clone().unwrap();
        let src = self.users[&nick].src();
        let (target, chan) = (p[0].clone(), p[1].clone());
        if !valid_name(&target) || !valid_chan(&chan) {
            self.push(se, c, "ERROR".into());
            return;
        }
        let ch = match self.chans.get(&chan) {
            None => {
                self.push(se, c, format!("403 {}", chan));
                se.labels.push("INVITE/403".into());
                return;
            }
            Some(ch) => ch.clone(),
        };
        let me = match ch.members.get(&nick) {
            None => {
                self.push(se, c, format!("442 {}", chan));
                se.labels.push("INVITE/442".into());
                return;
            }
            Some(r) => *r,
        };
        if ch.fi && !me.o {
            if me.is_op() {
                // founder/protected without the o flag on a +i channel: statement says "an operator" - ambiguous
                se.ambiguous = Some("INVITE on +i by founder/protected without o".into());
                return;
            }
            self.push(se, c, format!("482 {}", chan));
            se.labels.push("INVITE/482".into());
            return;
        }
        if ch.members.contains_key(&target) {
            self.push(se, c, format!("443 {} {}", target, chan));
            se.labels.push("INVITE/443".into());
            return;
        }
        if !self.users.contains_key(&target) {
            self.push(se, c, format!("401 {}", target));
            se.labels.push("INVITE/401".into());
            return;
        }
        self.touched.push((chan.clone(), P09));
        self.touched.push((target.clone(), P09));
        self.users.get_mut(&target).unwrap().invited.insert(chan.clone());
        self.push(se, c, format!("341 {} {}", target, chan));
        self.to_nick(se, &target, format!(":{} INVITE {}", src, p.join(SEP)));
        se.labels.push(format!("INVITE/ok/i{}", ch.fi as u8));
    }

    fn names(&mut self, c: usize, p: &[String], se: &mut StepExp) {
        if p.is_empty() {
            let chans: Vec<MChan> = self.chans.values().cloned().collect();
            let an = self.conns[c].nick.clone().unwrap_or_default();
            for ch in chans {
                if ch.fs && !ch.members.contains_key(&an) {
                    se.extra_hint |= P12;
                }
                if let Some(l) = self.names_line(c, &ch) {
                    self.push(se, c, l);
                }
            }
            self.push(se, c, "366 *".into());
            se.labels.push("NAMES/all".into());
            return;
        }
        let names: Vec<String> = p[0].split(',').map(|s| s.to_string()).collect();
        if names.iter().any(|n| !valid_chan(n)) {
            self.push(se, c, "ERROR".into());
            return;
        }
        for n in names {
            se.cur = P04 | P12;
            if let Some(ch) = self.chans.get(&n).cloned() {
                let an = self.conns[c].nick.clone().unwrap_or_default();
                if ch.fs && !ch.members.contains_key(&an) {
                    // not entitled to see it: only secrecy is at stake
                    se.cur = P12;
                    se.extra_hint |= P12;
                }
                if let Some(l) = self.names_line(c, &ch) {
                    self.push(se, c, l);
                }
                se.labels.push(format!("NAMES/{}{}", if ch.members.contains_key(&an) { "member" } else { "outsider" }, if ch.fs { "/secret" } else { "" }));
            } else {
                se.labels.push("NAMES/nochan".into());
            }
            self.push(se, c, format!("366 {}", n));
        }
    }

    fn list(&mut self, c: usize, p: &[String], se: &mut StepExp) {
        if p.len() > 1 {
            self.opaque(c, "LIST+server", se);
            return;
        }
        let filter: Option<Vec<String>> = p.get(0).map(|s| s.split(',').map(|x| x.to_string()).collect());
        if let Some(f) = &filter {
            if f.iter().any(|n| !valid_chan(n)) {
                self.push(se, c, "ERROR".into());
                return;
            }
        }
        self.push_e(se, Exp::Optional { c, options: vec!["321".into()] });
        let an = self.conns[c].nick.clone().unwrap_or_default();
        let chans: Vec<MChan> = self.chans.values().cloned().collect();
        let mut listed: BTreeSet<String> = BTreeSet::new();
        let want: Vec<String> = match &filter {
            Some(f) => f.clone(),
            None => chans.iter().map(|c| c.name.clone()).collect(),
        };
        for n in want {
            if let Some(ch) = self.chans.get(&n) {
                let line = format!("322 {} {}{}{}", ch.name, ch.members.len(), SEP, ch.topic.as_ref().map(|t| t.0.as_str()).unwrap_or(""));
                if ch.fs {
                    // hidden from outsiders (C12); whether a member sees its own secret channel is not stated
                    if !ch.members.contains_key(&an) {
                        se.extra_hint |= P12;
                    }
                    if ch.members.contains_key(&an) {
                        self.push_e(se, Exp::Optional { c, options: vec![line] });
                    }
                } else if listed.insert(n.clone()) || filter.is_some() {
                    self.push(se, c, line);
                }
            }
        }
        self.push(se, c, "323".into());
        se.labels.push("LIST".into());
    }

    // ------------------------------------------------------------------ MODE
    fn mode(&mut self, c: usize, p: &[String], se: &mut StepExp) {
        if p.is_empty() {
            self.push(se, c, "461 MODE".into());
            return;
        }
        let nick = self.conns[c].nick.clone().unwrap();
        let target = p[0].clone();
        // group mode strings with their arguments
        let mut groups: Vec<(String, Vec<String>)> = vec![];
        if let Some(first) = p.get(1) {
            if !(first.starts_with('+') || first.starts_with('-')) {
                self.push(se, c, "ERROR".into());
                return;
            }
            for t in &p[1..] {
                if t.starts_with('+') || t.starts_with('-') {
                    groups.push((t.clone(), vec![]));
                } else {
                    groups.last_mut().unwrap().1.push(t.clone());
                }
            }
        }
        if valid_chan(&target) {
            self.mode_chan(c, &nick, &target, groups, se);
        } else if valid_name(&target) {
            self.mode_user(c, &nick, &target, groups, se);
        } else {
            self.push(se, c, "ERROR".into());
        }
    }

    fn mode_chan(&mut self, c: usize, nick: &str, chan: &str, groups: Vec<(String, Vec<String>)>, se: &mut StepExp) {
        // syntax validation the server performs before executing anything
        for (ms, args) in &groups {
            let mut set = false;
            let mut ai = 0;
            for ch in ms.chars() {
                match ch {
                    '+' => set = true,
                    '-' => set = false,
                    'b' | 'e' | 'I' => {
                        ai += 1;
                    }
                    'o' | 'v' | 'h' | 'q' | 'a' => {
                        if ai >= args.len() || !valid_name(&args[ai]) {
                            // rejected as a whole before anything is executed: ERR_INVALIDMODEPARAM
                            se.cur = P08 | P13;
                            self.push_e(se, Exp::OnePrefix { c, prefix: format!("696 {}", chan) });
                            se.labels.push(format!("MODE/696/{}", ch));
                            return;
                        }
                        ai += 1;
                    }
                    'l' | 'k' => {
                        if set {
                            if ai >= args.len() || (ch == 'l' && args[ai].parse::<usize>().is_err()) {
                                se.cur = P08 | P13;
                                self.push_e(se, Exp::OnePrefix { c, prefix: format!("696 {}", chan) });
                                se.labels.push(format!("MODE/696/{}", ch));
                                return;
                            }
                            ai += 1;
                        } else if ai < args.len() {
                            se.ambiguous = Some("MODE -l/-k with an argument".into());
                            return;
                        }
                    }
                    'i' | 'm' | 't' | 'n' | 's' => {}
                    other => {
                        // ERR_UNKNOWNMODE, nothing executed
                        se.cur = P08 | P13;
                        self.push_e(se, Exp::OnePrefix { c, prefix: format!("472 {}", other) });
                        se.labels.push("MODE/472".into());
                        return;
                    }
                }
            }
        }
        let ch = match self.chans.get(chan) {
            None => {
                self.push(se, c, format!("403 {}", chan));
                se.labels.push("MODE/403".into());
                return;
            }
            Some(ch) => ch.clone(),
        };
        let me = match ch.members.get(nick) {
            None => {
                self.push(se, c, format!("442 {}", chan));
                se.labels.push("MODE/442".into());
                return;
            }
            Some(r) => *r,
        };
        if groups.is_empty() {
            self.push(se, c, format!("324 {} {}", chan, ch.mode_items().join(",")));
            self.push_e(se, Exp::Optional { c, options: vec![format!("329 {}", chan)] });
            se.labels.push("MODE/query".into());
            return;
        }
        let mut required: Vec<String> = vec![];
        let mut optional: Vec<String> = vec![];
        let mut refused = false;
        let mut masks_touched = false;
        let src = self.users[nick].src();
        self.touched.push((chan.to_string(), P08));
        if !me.is_halfop() {
            // nothing can be accepted; which parameter a refused letter is matched with is the server's business
            self.push_e(se, Exp::OptionalPrefix { c, prefix: "441 ".into() });
        }
        for (ms, args) in &groups {
            let mut set = false; // as the server: a group without a leading sign starts as "-"
            let mut ai = 0;
            for l in ms.chars() {
                match l {
                    '+' => set = true,
                    '-' => set = false,
                    'b' | 'e' | 'I' => {
                        if ai < args.len() {
                            let mask = normal_mask(&args[ai]);
                            ai += 1;
                            if !me.is_halfop() {
                                refused = true;
                                se.labels.push(format!("MODE/{}/refused/rank{}", l, me.code()));
                                continue;
                            }
                            let chm = self.chans.get_mut(chan).unwrap();
                            let list = match l {
                                'b' => &mut chm.ban,
                                'e' => &mut chm.exc,
                                _ => &mut chm.invex,
                            };
                            masks_touched = true;
                            let item = format!("{}{} {}", if set { '+' } else { '-' }, l, mask);
                            let effective = if set { list.insert(mask.clone()) } else { list.remove(&mask) };
                            if l == 'b' {
                                if set {
                                    chm.ban_who.insert(mask.clone(), nick.to_string());
                                } else {
                                    chm.ban_who.remove(&mask);
                                }
                            }
                            if effective {
                                required.push(item);
                            } else {
                                optional.push(item);
                            }
                            se.labels.push(format!("MODE/{}{}/ok/rank{}", if set { '+' } else { '-' }, l, me.code()));
                        } else {
                            // list query
                            se.cur = P08 | P14;
                            let chn = self.chans[chan].clone();
                            match l {
                                'b' => {
                                    for m in &chn.ban {
                                        self.push(se, c, format!("367 {} {}", chan, m));
                                    }
                                    self.push(se, c, format!("368 {}", chan));
                                }
                                'e' => {
                                    for m in &chn.exc {
                                        self.push(se, c, format!("348 {} {}", chan, m));
                                    }
                                    self.push(se, c, format!("349 {}", chan));
                                }
                                _ => {
                                    for m in &chn.invex {
                                        self.push(se, c, format!("346 {} {}", chan, m));
                                    }
                                    self.push(se, c, format!("347 {}", chan));
                                }
                            }
                            se.labels.push(format!("MODE/{}/listquery", l));
                        }
                    }
                    'q' | 'a' | 'o' | 'h' | 'v' => {
                        let arg = args[ai].clone();
                        ai += 1;
                        let allowed = match l {
                            'q' => me.q,
                            'a' => me.is_protected(),
                            'o' | 'h' => me.is_op(),
                            _ => me.is_halfop(),
                        };
                        let cur = self.chans[chan].members.get(&arg).copied();
                        if !allowed {
                            refused = true;
                            // a 441 for an absent target may accompany the refusal
                            self.push_e(se, Exp::Optional { c, options: vec![format!("441 {} {}", arg, chan)] });
                            se.labels.push(format!("MODE/{}{}/refused/rank{}", if set { '+' } else { '-' }, l, me.code()));
                            continue;
                        }
                        match cur {
                            None => {
                                self.push_e(se, Exp::AtLeast1 { c, line: format!("441 {} {}", arg, chan) });
                                se.labels.push(format!("MODE/{}/441", l));
                            }
                            Some(mut r) => {
                                let item = format!("{}{} {}", if set { '+' } else { '-' }, l, arg);
                                if r.get(l) != set {
                                    required.push(item);
                                } else {
                                    optional.push(item);
                                }
                                se.labels.push(format!("MODE/{}{}/ok/actor{}target{}", if set { '+' } else { '-' }, l, me.code(), r.code()));
                                r.set(l, set);
                                self.chans.get_mut(chan).unwrap().members.insert(arg.clone(), r);
                            }
                        }
                    }
                    'l' | 'k' => {
                        let arg = if set {
                            let a = args[ai].clone();
                            ai += 1;
                            Some(a)
                        } else {
                            None
                        };
                        if !me.is_halfop() {
                            refused = true;
                            se.labels.push(format!("MODE/{}/refused/rank{}", l, me.code()));
                            continue;
                        }
                        let chm = self.chans.get_mut(chan).unwrap();
                        if l == 'l' {
                            let newv = arg.as_ref().map(|a| a.parse::<usize>().unwrap());
                            let item = match &arg {
                                Some(a) => format!("+l {}", a),
                                None => "-l".to_string(),
                            };
                            if chm.limit != newv {
                                required.push(item);
                            } else {
                                optional.push(item);
                            }
                            chm.limit = newv;
                        } else {
                            let item = match &arg {
                                Some(a) => format!("+k {}", a),
                                None => "-k".to_string(),
                            };
                            if chm.key != arg {
                                required.push(item);
                            } else {
                                optional.push(item);
                            }
                            chm.key = arg.clone();
                        }
                        se.labels.push(format!("MODE/{}{}/ok/rank{}", if set { '+' } else { '-' }, l, me.code()));
                    }
                    'i' | 'm' | 't' | 'n' | 's' => {
                        if !me.is_halfop() {
                            refused = true;
                            se.labels.push(format!("MODE/{}/refused/rank{}", l, me.code()));
                            continue;
                        }
                        let chm = self.chans.get_mut(chan).unwrap();
                        let f = match l {
                            'i' => &mut chm.fi,
                            'm' => &mut chm.fm,
                            't' => &mut chm.ft,
                            'n' => &mut chm.fnn,
                            _ => &mut chm.fs,
                        };
                        let item = format!("{}{}", if set { '+' } else { '-' }, l);
                        if *f != set {
                            required.push(item);
                        } else {
                            optional.push(item);
                        }
                        *f = set;
                        se.labels.push(format!("MODE/{}{}/ok/rank{}", if set { '+' } else { '-' }, l, me.code()));
                    }
                    _ => {}
                }
            }
        }
        if refused {
            self.push_e(se, Exp::AtLeast1 { c, line: format!("482 {}", chan) });
        }
        let head = format!(":{} MODE {}", src, chan);
        if masks_touched {
            self.touched.push((chan.to_string(), P14 | P07 | P10));
        }
        se.cur = P08 | if masks_touched { P14 } else { 0 };
        let members: Vec<String> = self.chans[chan].members.keys().cloned().collect();
        if !required.is_empty() || !optional.is_empty() {
            self.chans.get_mut(chan).unwrap().moded = true;
            for m in members {
                if let Some(u) = self.users.get(&m) {
                    let uc = u.conn;
                    self.push_e(se, Exp::ModeAnn { c: uc, head: head.clone(), required: required.clone(), optional: optional.clone() });
                }
            }
        }
    }

    fn mode_user(&mut self, c: usize, nick: &str, target: &str, groups: Vec<(String, Vec<String>)>, se: &mut StepExp) {
        for (ms, args) in &groups {
            if ms.chars().any(|ch| !"+-ioOrw".contains(ch)) {
                self.push(se, c, "501".into());
                return;
            }
            if !args.is_empty() {
                self.push(se, c, "ERROR".into());
                return;
            }
        }
        se.cur = P11 | P19;
        if target != nick {
            if self.users.contains_key(target) {
                se.cur = P11 | P19 | P02;
                se.extra_hint |= P02 | P11 | P19;
                self.push(se, c, "502".into());
                se.labels.push("UMODE/502".into());
            } else {
                self.push(se, c, format!("401 {}", target));
                se.labels.push("UMODE/401".into());
            }
            return;
        }
        let src = self.users[nick].src();
        if groups.is_empty() {
            self.push(se, c, format!("221 {}", self.users[nick].modes.changes()));
            se.labels.push("UMODE/query".into());
            return;
        }
        let cfg_reg = self.users[nick].cfg_registered;
        self.touched.push((nick.to_string(), P11 | P19));
        let mut changes: Vec<String> = vec![];
        let mut opt: Vec<String> = vec![];
        let mut denied = false;
        let mut restricted = false;
        let u = self.users.get_mut(nick).unwrap();
        for (ms, _) in &groups {
            let mut set = false;
            for l in ms.chars() {
                match l {
                    '+' => set = true,
                    '-' => set = false,
                    'i' => {
                        if u.modes.i != set {
                            u.modes.i = set;
                            changes.push(format!("{}i", if set { '+' } else { '-' }));
                        }
                    }
                    'w' => {
                        if u.modes.w != set {
                            u.modes.w = set;
                            changes.push(format!("{}w", if set { '+' } else { '-' }));
                        }
                    }
                    'r' => {
                        if set {
                            if !u.modes.r {
                                if cfg_reg {
                                    u.modes.r = true;
                                    changes.push("+r".into());
                                } else {
                                    denied = true;
                                }
                            }
                        } else if u.modes.r {
                            u.modes.r = false;
                            changes.push("-r".into());
                            restricted = true;
                        }
                    }
                    'o' => {
                        if set {
                            if !u.modes.o {
                                denied = true; // C11: only OPER confers operator status
                            }
                        } else if u.modes.o {
                            u.modes.o = false;
                            changes.push("-o".into());
                        }
                    }
                    'O' => {
                        if set {
                            if !u.modes.lo {
                                denied = true;
                            }
                        } else if u.modes.lo {
                            u.modes.lo = false;
                            changes.push("-O".into());
                        }
                    }
                    _ => {}
                }
            }
        }
        // a letter set and unset in the same command shows up twice; canonical form keeps both
        let _ = &mut opt;
        if denied {
            self.push_e(se, Exp::AtLeast1 { c, line: "481".into() });
        }
        if restricted {
            self.push_e(se, Exp::Optional { c, options: vec!["484".into()] });
        }
        if !changes.is_empty() {
            changes.sort();
            self.push(se, c, format!(":{} MODE {} {}", src, nick, changes.join(",")));
        }
        se.labels.push(format!("UMODE/{}{}", if changes.is_empty() { "nochange" } else { "changed" }, if denied { "/denied" } else { "" }));
    }

    // ------------------------------------------------------------------ messages
    fn msg(&mut self, c: usize, p: &[String], notice: bool, se: &mut StepExp) {
        let verb = if notice { "NOTICE" } else { "PRIVMSG" };
        if p.len() < 2 {
            self.push(se, c, format!("461 {}", verb));
            return;
        }
        let nick = self.conns[c].nick.clone().unwrap();
        let u = self.users[&nick].clone();
        let src = u.src();
        let text = p[1].clone();
        let targets: BTreeSet<String> = p[0].split(',').map(|s| s.to_string()).collect();
        for t in &targets {
            if t.is_empty() {
                self.push(se, c, "ERROR".into());
                return;
            }
        }
        for t in &targets {
            let (prefix, chan) = split_status_prefix(t);
            if prefix.len() > 1 {
                se.ambiguous = Some("several status prefixes on a target".into());
                return;
            }
            if !(valid_name(t) || !chan.is_empty()) {
                self.push(se, c, "ERROR".into());
                return;
            }
        }
        for t in &targets {
            let line = format!(":{} {} {}{}{}", src, verb, t, SEP, text);
            let (prefix, chan) = split_status_prefix(t);
            if !chan.is_empty() {
                match self.chans.get(chan) {
                    None => {
                        if !notice {
                            se.cur = P10 | P16;
                            self.push(se, c, format!("403 {}", chan));
                        }
                        se.labels.push(format!("{}/chan/403", verb));
                    }
                    Some(ch) => {
                        let me = ch.members.get(&nick).copied();
                        let may = (me.is_some() || (!ch.fnn && !ch.fs)) && !ch.banned(&src) && (!ch.fm || me.map_or(false, |r| r.is_voice()));
                        se.labels.push(format!(
                            "{}/chan/{}/m{}n{}s{}mod{}ban{}exc{}/rank{}/pfx{}",
                            verb,
                            if may { "deliver" } else { "blocked" },
                            me.is_some() as u8,
                            ch.fnn as u8,
                            ch.fs as u8,
                            ch.fm as u8,
                            ch.ban.iter().any(|b| glob(b, &src)) as u8,
                            ch.exc.iter().any(|b| glob(b, &src)) as u8,
                            me.map_or(99, |r| r.code()),
                            prefix
                        ));
                        let restricted = ch.fnn || ch.fs || ch.fm || !ch.ban.is_empty();
                        let p8 = if restricted && ch.moded { P08 } else { 0 };
                        if !may {
                            if !notice {
                                se.cur = P10 | p8 | if !ch.ban.is_empty() { P14 } else { 0 };
                                self.push(se, c, format!("404 {}", chan));
                            }
                            if !ch.ban.is_empty() {
                                se.extra_hint |= P10 | P14 | P01;
                            }
                            se.extra_hint |= p8;
                            continue;
                        }
                        se.cur = P01 | p8 | if restricted { P10 } else { 0 } | if prefix.is_empty() { 0 } else { P08 | P15 } | if !ch.ban.is_empty() { P14 } else { 0 };
                        let members: Vec<(String, Rank)> = ch.members.iter().map(|(n, r)| (n.clone(), *r)).collect();
                        for (m, r) in members {
                            if m == nick {
                                continue;
                            }
                            let hit = match prefix {
                                "" => true,
                                "~" => r.q,
                                "&" => r.a,
                                "@" => r.o,
                                "%" => r.h,
                                "+" => r.v,
                                _ => false,
                            };
                            if hit {
                                self.to_nick(se, &m, line.clone());
                            }
                        }
                    }
                }
            } else {
                match self.users.get(t.as_str()) {
                    Some(tu) => {
                        let tc = tu.conn;
                        let away = tu.away.clone();
                        se.cur = P01 | P02 | P15;
                        if *t == nick {
                            // R3: message to oneself - delivered once or not at all
                            self.push_e(se, Exp::Optional { c: tc, options: vec![line.clone()] });
                        } else {
                            self.push(se, tc, line.clone());
                        }
                        if !notice {
                            if let Some(a) = away {
                                se.cur = P10 | P15;
                                self.push(se, c, format!("301 {}{}{}", t, SEP, a));
                                se.labels.push("PRIVMSG/nick/away".into());
                            }
                        }
                        se.labels.push(format!("{}/nick/deliver{}", verb, if *t == nick { "/self" } else { "" }));
                    }
                    None => {
                        if !notice {
                            se.cur = P10 | P06 | P15;
                            self.push(se, c, format!("401 {}", t));
                        }
                        se.labels.push(format!("{}/nick/401", verb));
                    }
                }
            }
        }
    }

    // ------------------------------------------------------------------ queries
    fn visible_to(&self, asker: &MUser, u: &MUser) -> bool {
        !u.modes.i || !u.chans.is_disjoint(&asker.chans)
    }

    fn who_line(&self, asker: usize, chan: Option<(&str, Rank)>, u: &MUser) -> String {
        let mut flags = String::new();
        flags.push(if u.away.is_some() { 'G' } else { 'H' });
        if u.modes.is_oper() {
            flags.push('*');
        }
        if let Some((_, r)) = chan {
            flags.push_str(&r.prefix(self.conns[asker].multi_prefix));
        }
        format!("352 {} ~{} {} {} {}{}{}", chan.map(|c| c.0).unwrap_or("*"), u.user, u.host, u.nick, flags, SEP, u.real)
    }

    fn who(&mut self, c: usize, p: &[String], se: &mut StepExp) {
        if p.is_empty() {
            self.push(se, c, "461 WHO".into());
            return;
        }
        let mask = p[0].clone();
        let asker = self.user_of_conn(c).unwrap().clone();
        if mask.contains('*') || mask.contains('?') {
            se.cur |= P14;
            se.extra_hint |= P14 | P04;
            let users: Vec<MUser> = self.users.values().cloned().collect();
            for u in users {
                if (glob(&mask, &u.nick) || glob(&mask, &u.src()) || glob(&mask, &u.real)) && self.visible_to(&asker, &u) {
                    let l = self.who_line(c, None, &u);
                    self.push(se, c, l);
                }
            }
            se.labels.push("WHO/mask".into());
        } else if valid_chan(&mask) {
            if let Some(ch) = self.chans.get(&mask).cloned() {
                let member = ch.members.contains_key(&asker.nick);
                if ch.fs && !member {
                    se.cur = P12;
                    se.extra_hint |= P12;
                }
                if !ch.fs || member {
                    for (n, r) in &ch.members {
                        let u = self.users[n].clone();
                        if self.visible_to(&asker, &u) {
                            let l = self.who_line(c, Some((&mask, *r)), &u);
                            self.push(se, c, l);
                        }
                    }
                }
                se.labels.push(format!("WHO/chan/{}{}", if member { "member" } else { "outsider" }, if ch.fs { "/secret" } else { "" }));
            } else {
                se.labels.push("WHO/chan/none".into());
            }
        } else if valid_name(&mask) {
            if let Some(u) = self.users.get(&mask).cloned() {
                if self.visible_to(&asker, &u) {
                    let l = self.who_line(c, None, &u);
                    self.push(se, c, l);
                }
            }
            se.labels.push("WHO/nick".into());
        }
        self.push(se, c, format!("315 {}", mask));
    }

    fn whois(&mut self, c: usize, p: &[String], se: &mut StepExp) {
        if p.is_empty() {
            self.push(se, c, "461 WHOIS".into());
            return;
        }
        if p.len() >= 2 {
            self.opaque(c, "WHOIS+server", se);
            return;
        }
        let masks: Vec<String> = p[0].split(',').map(|s| s.to_string()).collect();
        if masks.iter().any(|m| !valid_name(m)) {
            self.push(se, c, "ERROR".into());
            return;
        }
        let asker = self.user_of_conn(c).unwrap().clone();
        let multi = self.conns[c].multi_prefix;
        let mut nicks: BTreeSet<String> = BTreeSet::new();
        for m in &masks {
            if m.contains('*') || m.contains('?') {
                se.cur |= P14;
                se.extra_hint |= P14 | P04;
                for n in self.users.keys() {
                    if glob(m, n) {
                        nicks.insert(n.clone());
                    }
                }
            } else if self.users.contains_key(m) {
                nicks.insert(m.clone());
            }
        }
        for n in nicks {
            let u = self.users[&n].clone();
            if !self.visible_to(&asker, &u) {
                se.labels.push("WHOIS/hidden_invisible".into());
                se.extra_hint |= P12;
                continue;
            }
            let base = se.cur;
            if u.modes.r {
                se.cur = P20 | P03;
                self.push(se, c, format!("307 {}", n));
                se.cur = base;
            }
            self.push(se, c, format!("311 {} ~{} {}{}{}", n, u.user, u.host, SEP, u.real));
            self.push_e(se, Exp::Optional { c, options: vec![format!("312 {}", n)] });
            if u.modes.is_oper() {
                se.cur = P11 | P15;
                self.push(se, c, format!("313 {}", n));
                se.cur = base;
            }
            let mut chs: Vec<String> = vec![];
            let mut opt_chs: Vec<String> = vec![];
            for chn in &u.chans {
                let ch = &self.chans[chn];
                let item = format!("{}{}", ch.members[&n].prefix(multi), chn);
                if !ch.fs {
                    chs.push(item);
                } else if ch.members.contains_key(&asker.nick) {
                    opt_chs.push(item);
                }
            }
            // secret channels shared with the asker may or may not be listed (the statement speaks of outsiders only)
            if !chs.is_empty() || !opt_chs.is_empty() {
                chs.sort();
                opt_chs.sort();
                self.push_e(se, Exp::ModeAnn { c, head: format!("319 {}", n), required: chs.clone(), optional: opt_chs.clone() });
            }
            self.push_e(se, Exp::Optional { c, options: vec![format!("317 {}", n)] });
            if u.modes.is_oper() {
                se.cur = P11 | P15;
                self.push_e(se, Exp::Optional { c, options: vec![format!("378 {}", n)] });
                self.push(se, c, format!("379 {}", n));
                se.cur = base;
            }
            if self.cfg.all_secure {
                // the asker's transport is secure => the server is a TLS server => everybody is (the server's own reasoning)
                se.cur = P20;
                self.push(se, c, format!("671 {}", n));
                se.cur = base;
            }
            se.labels.push(format!("WHOIS/shown{}", if u.modes.is_oper() { "/oper" } else { "" }));
        }
        self.push(se, c, format!("318 {}", masks.join(",")));
    }

    fn whowas(&mut self, c: usize, p: &[String], se: &mut StepExp) {
        if p.is_empty() {
            self.push(se, c, "461 WHOWAS".into());
            return;
        }
        if p.len() > 2 {
            self.opaque(c, "WHOWAS+server", se);
            return;
        }
        // an optional count: that many newest records; zero (or none) means all
        let count: Option<usize> = match p.get(1) {
            None => None,
            Some(t) => match t.parse::<usize>() {
                Ok(k) => Some(k),
                Err(_) => {
                    self.push(se, c, "ERROR".into());
                    se.labels.push("WHOWAS/bad_count".into());
                    return;
                }
            },
        };
        let n = p[0].clone();
        if !valid_name(&n) {
            self.push(se, c, "ERROR".into());
            return;
        }
        match self.history.get(&n) {
            Some(h) => {
                let take = match count {
                    Some(k) if k > 0 => k,
                    _ => h.len(),
                };
                for (user, host, real) in h.iter().rev().take(take) {
                    self.push(se, c, format!("314 {} ~{} {}{}{}", n, user, host, SEP, real));
                    self.push_e(se, Exp::Optional { c, options: vec![format!("312 {}", n)] });
                }
                se.labels.push(format!("WHOWAS/found/count{}", match count { None => "none", Some(0) => "0", Some(k) if k < h.len() => "less", Some(k) if k == h.len() => "equal", _ => "more" }));
            }
            None => {
                self.push(se, c, format!("406 {}", n));
                se.labels.push("WHOWAS/406".into());
            }
        }
        self.push(se, c, format!("369 {}", n));
    }

    // ------------------------------------------------------------------ operators
    fn oper(&mut self, c: usize, p: &[String], se: &mut StepExp) {
        if p.len() < 2 {
            self.push(se, c, "461 OPER".into());
            return;
        }
        if !valid_name(&p[0]) {
            self.push(se, c, "ERROR".into());
            return;
        }
        let nick = self.conns[c].nick.clone().unwrap();
        let src = self.users[&nick].src();
        match self.cfg.operators.iter().rev().find(|o| o.name == p[0]).cloned() {
            None => {
                self.push(se, c, "491".into());
                se.labels.push("OPER/unknown_name".into());
            }
            Some(o) => {
                if o.password != p[1] {
                    self.push(se, c, "464".into());
                    se.labels.push("OPER/wrong_password".into());
                } else if o.mask.as_ref().map_or(false, |m| !glob(m, &src)) {
                    se.cur |= P14;
                    self.push(se, c, "491".into());
                    se.labels.push("OPER/mask_mismatch".into());
                } else {
                    let u = self.users.get_mut(&nick).unwrap();
                    se.labels.push(format!("OPER/ok{}", if u.modes.is_oper() { "/repeat" } else { "" }));
                    if o.mask.is_some() {
                        se.cur |= P14;
                    }
                    u.modes.o = true;
                    self.touched.push((nick.clone(), P11 | P19));
                    self.push(se, c, "381".into());
                }
            }
        }
    }

    /// burst mode: the victim's own task notices the kill a little later (it may still handle commands it
    /// already received); this is that moment
    pub(crate) fn deliver_kill(&mut self, c: usize) -> StepExp {
        let mut se = StepExp::default();
        if let Some(pos) = self.pending_kill.iter().position(|(x, _, _)| *x == c) {
            let (_, killer, comment) = self.pending_kill.remove(pos);
            if self.conns[c].alive {
                se.cur = P11;
                self.push(&mut se, c, format!("ERROR killed-by {}{}{}", killer, SEP, comment));
                self.end_conn(c);
            }
        }
        se
    }

    fn kill_user(&mut self, killer: &str, victim: &str, comment: &str, se: &mut StepExp) {
        if self.defer_teardown {
            if let Some(v) = self.users.get(victim) {
                // only the first kill signal counts (the server hands over a one-shot channel)
                if !self.pending_kill.iter().any(|(x, _, _)| *x == v.conn) && self.conns[v.conn].alive {
                    self.pending_kill.push((v.conn, killer.to_string(), comment.to_string()));
                }
            }
            return;
        }
        if let Some(v) = self.users.get(victim).cloned() {
            se.cur = P11;
            self.push(se, v.conn, format!("ERROR killed-by {}{}{}", killer, SEP, comment));
            self.end_conn(v.conn);
        }
    }

    fn kill(&mut self, c: usize, p: &[String], se: &mut StepExp) {
        if p.len() < 2 {
            self.push(se, c, "461 KILL".into());
            return;
        }
        if !valid_name(&p[0]) {
            self.push(se, c, "ERROR".into());
            return;
        }
        let nick = self.conns[c].nick.clone().unwrap();
        if !self.users[&nick].modes.o {
            self.push(se, c, "481".into());
            se.labels.push("KILL/481".into());
            return;
        }
        if !self.users.contains_key(&p[0]) {
            self.push(se, c, format!("401 {}", p[0]));
            se.labels.push("KILL/401".into());
            return;
        }
        se.labels.push(format!("end/kill/{}", if p[0] == nick { "self" } else { "other" }));
        self.kill_user(&nick, &p[0].clone(), &p[1].clone(), se);
    }

    fn die(&mut self, c: usize, msg: Option<String>, se: &mut StepExp) {
        let nick = self.conns[c].nick.clone().unwrap();
        if !self.users[&nick].modes.o {
            self.push(se, c, "483".into());
            se.labels.push("DIE/483".into());
            return;
        }
        let m = msg.unwrap_or_else(|| "Quitting from DIE".to_string());
        let all: Vec<String> = self.users.keys().cloned().collect();
        for v in all {
            self.kill_user(&nick, &v, &m, se);
        }
        self.server_quit = true;
        se.labels.push("end/die".into());
    }

    fn wallops(&mut self, c: usize, p: &[String], se: &mut StepExp) {
        if p.is_empty() {
            self.push(se, c, "461 WALLOPS".into());
            return;
        }
        let nick = self.conns[c].nick.clone().unwrap();
        let u = self.users[&nick].clone();
        if !u.modes.is_oper() {
            self.push(se, c, "481".into());
            se.labels.push("WALLOPS/481".into());
            return;
        }
        let line = format!(":{} WALLOPS {}", u.src(), p.join(SEP));
        let targets: Vec<usize> = self.users.values().filter(|x| x.modes.w).map(|x| x.conn).collect();
        se.labels.push(format!("WALLOPS/ok/{}", targets.len()));
        for t in targets {
            self.push(se, t, line.clone());
        }
    }
}

pub(crate) fn valid_name(n: &str) -> bool {
    !(n.starts_with('#') || n.starts_with('&')) && !n.contains('.') && !n.contains(':') && !n.contains(',')
}

pub(crate) fn valid_chan(n: &str) -> bool {
    !n.is_empty() && (n.starts_with('#') || n.starts_with('&')) && !n.contains(':') && !n.contains(',')
}

/// "@#chan" -> ("@", "#chan"); "bob" -> ("", ""); "#chan" -> ("", "#chan")
pub(crate) fn split_status_prefix(t: &str) -> (&str, &str) {
    let idx = t.find(|ch: char| !"~&@%+".contains(ch)).unwrap_or(t.len());
    let (mut pre, mut rest) = t.split_at(idx);
    if rest.starts_with('#') && rest.len() > 1 {
        return (pre, rest);
    }
    // '&' is also a channel type: "&loc" or "@&loc"
    if pre.ends_with('&') && !rest.is_empty() && !rest.starts_with('#') {
        pre = &t[..idx - 1];
        rest = &t[idx - 1..];
        return (pre, rest);
    }
    ("", "")
}
