// c20.rs - C20: configuration is validated at start-up and governs behaviour as documented.
// Start-up is the first event of a run: the harness writes a configuration file (key names taken from
// the repository's config-example.toml, the documentation), optionally damages it, and calls the
// server's own Cli parser + MainConfig::new. For accepted configurations the run continues on a
// server built from *that* parsed configuration and is compared with the reference model.

use crate::framework::*;
use crate::gen::*;
use crate::oracle::exec_model_trace_world;
use crate::rt::{self, Rng};
use crate::stepchecks::profile_for;
use crate::world::*;
use crate::{Cli, MainConfig};
use clap::Parser;
use std::collections::HashMap;

pub(crate) struct C20;

const MUTATIONS: &[&str] = &[
    "valid", "valid", "valid", "valid_minimal", "cli_names_ok", "name_no_dot", "cli_name_no_dot", "bad_hash_len", "bad_hash_b64", "bad_oper_name", "bad_user_name",
    "bad_user_nick", "bad_chan_name", "missing_field", "ill_typed", "duplicate_key", "truncated", "missing_file", "cert_without_key", "key_without_cert", "cert_and_key",
    "valid", "cli_network_only",
];

/// keys documented in config-example.toml, by section
fn documented_keys() -> HashMap<String, Vec<String>> {
    let path = format!("{}/config-example.toml", env!("VERIF_REPO_PATH"));
    let text = std::fs::read_to_string(&path).unwrap_or_default();
    let mut section = String::new();
    let mut out: HashMap<String, Vec<String>> = HashMap::new();
    for l in text.lines() {
        let t = l.trim();
        if t.starts_with('#') || t.is_empty() {
            continue;
        }
        if t.starts_with('[') {
            section = t.trim_matches(|c| c == '[' || c == ']').to_string();
            continue;
        }
        if let Some((k, _)) = t.split_once('=') {
            out.entry(section.clone()).or_default().push(k.trim().to_string());
        }
    }
    out
}

fn edit_distance(a: &str, b: &str) -> usize {
    let (a, b): (Vec<char>, Vec<char>) = (a.chars().collect(), b.chars().collect());
    let mut d: Vec<Vec<usize>> = vec![vec![0; b.len() + 1]; a.len() + 1];
    for i in 0..=a.len() {
        d[i][0] = i;
    }
    for j in 0..=b.len() {
        d[0][j] = j;
    }
    for i in 1..=a.len() {
        for j in 1..=b.len() {
            let c = if a[i - 1] == b[j - 1] { 0 } else { 1 };
            d[i][j] = *[d[i - 1][j] + 1, d[i][j - 1] + 1, d[i - 1][j - 1] + c].iter().min().unwrap();
            if i > 1 && j > 1 && a[i - 1] == b[j - 2] && a[i - 2] == b[j - 1] {
                d[i][j] = std::cmp::min(d[i][j], d[i - 2][j - 2] + 1);
            }
        }
    }
    d[a.len()][b.len()]
}

/// the documented key for an abstract setting: the example file is the source of names
fn doc_key(doc: &HashMap<String, Vec<String>>, section: &str, want: &str) -> Option<String> {
    let keys = doc.get(section)?;
    if keys.iter().any(|k| k == want) {
        return Some(want.to_string());
    }
    keys.iter().filter(|k| edit_distance(k, want) <= 2).min_by_key(|k| edit_distance(k, want)).cloned()
}

fn q(s: &str) -> String {
    format!("\"{}\"", s.replace('\\', "\\\\").replace('"', "\\\""))
}

fn qlist(v: &[String]) -> String {
    format!("[ {} ]", v.iter().map(|x| q(x)).collect::<Vec<_>>().join(", "))
}

struct Rendered {
    toml: String,
    undocumented: Vec<String>,
}

fn render(cfg: &SimConfig, doc: &HashMap<String, Vec<String>>, hashes: &HashMap<String, String>) -> Rendered {
    let mut undocumented = vec![];
    let mut t = String::new();
    let h = |p: &str| hashes.get(p).cloned().unwrap_or_else(|| hash_password(p));
    let mut top = |t: &mut String, key: &str, val: String| match doc_key(doc, "", key) {
        Some(k) => t.push_str(&format!("{} = {}\n", k, val)),
        None => undocumented.push(key.to_string()),
    };
    top(&mut t, "name", q(&cfg.name));
    top(&mut t, "admin_info", q(&cfg.admin_info));
    if let Some(x) = &cfg.admin_info2 {
        top(&mut t, "admin_info2", q(x));
    }
    top(&mut t, "info", q(&cfg.info));
    top(&mut t, "listen", q("127.0.0.1"));
    top(&mut t, "port", "6667".into());
    if let Some(p) = &cfg.password {
        top(&mut t, "password", q(&h(p)));
    }
    top(&mut t, "network", q(&cfg.network));
    if let Some(x) = cfg.max_connections {
        top(&mut t, "max_connections", x.to_string());
    }
    if let Some(x) = cfg.max_joins {
        top(&mut t, "max_joins", x.to_string());
    }
    top(&mut t, "ping_timeout", cfg.ping_timeout.to_string());
    top(&mut t, "pong_timeout", cfg.pong_timeout.to_string());
    top(&mut t, "motd", q(&cfg.motd));
    top(&mut t, "dns_lookup", "false".into());
    top(&mut t, "log_level", q("INFO"));
    t.push_str("\n[default_user_modes]\n");
    let d = &cfg.default_user_modes;
    for (k, v) in [("invisible", d.invisible), ("oper", d.oper), ("local_oper", d.local_oper), ("registered", d.registered), ("wallops", d.wallops)] {
        match doc_key(doc, "default_user_modes", k) {
            Some(dk) => t.push_str(&format!("{} = {}\n", dk, v)),
            None => undocumented.push(format!("default_user_modes.{}", k)),
        }
    }
    for o in &cfg.operators {
        t.push_str("\n[[operators]]\n");
        t.push_str(&format!("name = {}\npassword = {}\n", q(&o.name), q(&h(&o.password))));
        if let Some(m) = &o.mask {
            t.push_str(&format!("mask = {}\n", q(m)));
        }
    }
    for u in &cfg.users {
        t.push_str("\n[[users]]\n");
        t.push_str(&format!("name = {}\nnick = {}\n", q(&u.name), q(&u.nick)));
        if let Some(p) = &u.password {
            t.push_str(&format!("password = {}\n", q(&h(p))));
        }
        if let Some(m) = &u.mask {
            t.push_str(&format!("mask = {}\n", q(m)));
        }
    }
    for c in &cfg.channels {
        t.push_str("\n[[channels]]\n");
        t.push_str(&format!("name = {}\n", q(&c.name)));
        if let Some(tp) = &c.topic {
            t.push_str(&format!("topic = {}\n", q(tp)));
        }
        t.push_str("\n[channels.modes]\n");
        let mut lst = |t: &mut String, key: &str, v: &Vec<String>| {
            if !v.is_empty() {
                match doc_key(doc, "channels.modes", key) {
                    Some(k) => t.push_str(&format!("{} = {}\n", k, qlist(v))),
                    None => undocumented.push(format!("channels.modes.{}", key)),
                }
            }
        };
        lst(&mut t, "ban", &c.ban);
        lst(&mut t, "exception", &c.exception);
        lst(&mut t, "invite_exception", &c.invite_exception);
        lst(&mut t, "founders", &c.founders);
        lst(&mut t, "protecteds", &c.protecteds);
        lst(&mut t, "operators", &c.operators);
        lst(&mut t, "half_operators", &c.half_operators);
        lst(&mut t, "voices", &c.voices);
        if let Some(k) = &c.key {
            match doc_key(doc, "channels.modes", "key") {
                Some(dk) => t.push_str(&format!("{} = {}\n", dk, q(k))),
                None => undocumented.push("channels.modes.key".into()),
            }
        }
        for (k, v) in [("moderated", c.moderated), ("invite_only", c.invite_only), ("secret", c.secret), ("protected_topic", c.protected_topic), ("no_external_messages", c.no_external_messages)] {
            match doc_key(doc, "channels.modes", k) {
                Some(dk) => t.push_str(&format!("{} = {}\n", dk, v)),
                None => undocumented.push(format!("channels.modes.{}", k)),
            }
        }
    }
    Rendered { toml: t, undocumented }
}

fn gen_config(r: &mut Rng) -> SimConfig {
    let mut cfg = SimConfig::default();
    cfg.name = ["irc.example.org", "srv.sim", "a.b"][r.below(3)].into();
    cfg.network = ["ExampleNet", "N"][r.below(2)].into();
    cfg.motd = ["Welcome to the jungle", "motd with : colon", "x"][r.below(3)].into();
    cfg.admin_info = "The admin".into();
    if r.chance(1, 2) {
        cfg.admin_info2 = Some("second line".into());
    }
    cfg.info = "info text".into();
    if r.chance(1, 2) {
        cfg.password = Some(["srvpw", "p", "long password with blanks", "päss"][r.below(4)].into());
    }
    cfg.max_joins = [None, Some(1), Some(2), Some(5)][r.below(4)];
    if r.chance(1, 4) {
        cfg.max_connections = Some(r.range(3, 8));
    }
    cfg.ping_timeout = 100_000;
    cfg.pong_timeout = 50_000;
    let d = &mut cfg.default_user_modes;
    d.invisible = r.chance(1, 4);
    d.wallops = r.chance(1, 4);
    d.registered = r.chance(1, 4);
    d.oper = r.chance(1, 8);
    d.local_oper = r.chance(1, 8);
    let nops = r.below(3);
    for i in 0..nops {
        cfg.operators.push(OperCfg { name: ["root", "ops", "admin"][i].into(), password: ["rootpw", "o", "Admin Pass"][r.below(3)].into(), mask: if r.chance(1, 3) { Some("*!*@10.0.0.*".into()) } else { None } });
    }
    if r.chance(1, 2) {
        cfg.users.push(UserCfg {
            name: "u1".into(),
            nick: "bob".into(),
            password: if r.chance(1, 2) { Some("u1pass".into()) } else { None },
            mask: [None, Some("*!*@10.0.0.2".to_string()), Some("*!*@10.9.9.9".to_string())][r.below(3)].clone(),
        });
    }
    if r.chance(1, 3) {
        cfg.users.push(UserCfg { name: ["u2", "u0", "guest"][r.below(3)].into(), nick: "cat".into(), password: if r.chance(1, 2) { Some("otherpass".into()) } else { None }, mask: if r.chance(1, 3) { Some("*!*@10.8.8.8".into()) } else { None } });
    }
    let nch = r.below(3);
    for i in 0..nch {
        let mut ch = ChanCfg { name: ["#pre", "#sec"][i].into(), ..Default::default() };
        if r.chance(1, 2) {
            ch.topic = Some(format!("topic of {}", ch.name));
        }
        if r.chance(1, 3) {
            ch.key = Some("prekey".into());
        }
        if r.chance(1, 2) {
            ch.ban = vec![["*!*@10.0.0.2", "bob!*@*", "*!~u0@*", "*!*@*"][r.below(4)].into()];
        }
        if r.chance(1, 2) {
            ch.exception = vec![["bob!*@*", "*!*@10.0.0.2", "*!~u0@*", "ann!*@*"][r.below(4)].into()];
        }
        if r.chance(1, 3) {
            ch.invite_only = true;
            if r.chance(1, 2) {
                ch.invite_exception = vec![["ann!*@*", "*!*@10.0.0.3"][r.below(2)].into()];
            }
        }
        ch.moderated = r.chance(1, 5);
        ch.secret = i == 1 || r.chance(1, 6);
        ch.protected_topic = r.chance(1, 3);
        ch.no_external_messages = r.chance(1, 3);
        if r.chance(1, 2) {
            ch.founders = vec!["ann".into()];
        }
        if r.chance(1, 3) {
            // (the same nickname may be listed in several rank lists, as in config-example.toml: every listed rank is given)
            ch.operators = if r.chance(1, 2) { vec!["bob".into()] } else { vec!["bob".into(), "ann".into()] };
        }
        if r.chance(1, 3) {
            ch.voices = match r.below(3) {
                0 => vec!["cat".into()],
                1 => vec!["cat".into(), "bob".into()],
                _ => vec!["ann".into(), "bob".into(), "cat".into()],
            };
        }
        if r.chance(1, 4) {
            ch.half_operators = vec!["dan".into()];
        }
        if r.chance(1, 5) {
            ch.protecteds = vec!["cat".into()];
        }
        cfg.channels.push(ch);
    }
    // "enabling TLS changes the transport only": the behaviour part may run with every connection on the secure seam
    if r.chance(1, 4) {
        cfg.all_secure = true;
    }
    cfg
}

impl Check for C20 {
    fn id(&self) -> &'static str {
        "C20"
    }
    fn runs(&self, tier: Tier) -> u64 {
        match tier {
            Tier::Quick => 6000,
            Tier::Thorough => 200_000,
        }
    }
    fn rule(&self) -> String {
        format!(
            "start-up as first event: a seeded configuration over the documented fields (key names read from config-example.toml) is written to a file, damaged by one of {} mutation kinds \
             (invalid name/hash/user/operator/channel, missing or ill-typed field, duplicate key, truncation at an arbitrary byte, missing file, TLS cert without key, CLI overrides valid and invalid) \
             and given to the server's own Cli parser + MainConfig::new; accept <=> the documented rules (truncation: accepted => valid). Accepted configurations then serve a model-guided client history \
             (passwords incl. neighbours of the right one against real argon2 hashes, OPER, predefined users/channels, max_joins, default modes, MOTD/ADMIN, CLI-overridden names). \
             distinct+nontrivial = (mutation kind, damaged field, verdict) and the model's outcome labels of the behaviour part.",
            MUTATIONS.len()
        )
    }
    fn assumptions(&self) -> Vec<String> {
        vec![
            "the TLS handshake and record layer are out of reach (TLS stream types are bound to TcpStream; no socket exists in the simulator); 'enabling TLS changes the transport only' is checked at the seam: a quarter of the behaviour runs mark every connection secure (is_secure() true) and must follow the same model, WHOIS adding 671".into(),
            "the '-g' branch of main() and the process exit status are not compiled into the harness: 'exits with an error' is observed as MainConfig::new/Cli parsing returning Err, 'a hash printed by -g' as the value of argon2_hash_password".into(),
            "only settings documented in config-example.toml are used (client_limit and admin_email are not documented there)".into(),
        ]
    }
    fn probes(&self) -> Vec<&'static str> {
        vec!["startup.accepted", "startup.rejected", "mut.truncated", "mut.cli_name_no_dot", "mut.bad_hash_len", "mut.cert_without_key", "behaviour_run", "behaviour_run.secure_transport"]
    }

    fn gen(&self, run_seed: u64, idx: u64, _tier: Tier) -> Trace {
        let mut r = Rng::new(run_seed);
        let doc = documented_keys();
        let mut cfg = gen_config(&mut r.fork(1));
        let mutation = MUTATIONS[(idx as usize) % MUTATIONS.len()];
        if mutation == "valid_minimal" {
            cfg.admin_info2 = None;
            cfg.password = None;
            cfg.max_joins = None;
            cfg.max_connections = None;
            cfg.operators.clear();
            cfg.users.clear();
            cfg.channels.clear();
        }
        let mut hashes: HashMap<String, String> = HashMap::new();
        let mut cli: Vec<String> = vec![];
        let mut expect = "ok";
        let mut detail = String::new();
        let mut cfg_file = cfg.clone();
        match mutation {
            "name_no_dot" => {
                cfg_file.name = "nodotname".into();
                expect = "err";
            }
            "cli_name_no_dot" => {
                cli.extend(["-n".to_string(), "nodotname".to_string()]);
                expect = "err";
            }
            "cli_names_ok" => {
                cli.extend(["-n".to_string(), "cli.example".to_string(), "-N".to_string(), "CliNet".to_string()]);
                cfg.name = "cli.example".into();
                cfg.network = "CliNet".into();
            }
            "cli_network_only" => {
                cli.extend(["--network".to_string(), "OtherNet".to_string(), "-p".to_string(), "7000".to_string()]);
                cfg.network = "OtherNet".into();
            }
            "bad_hash_len" | "bad_hash_b64" => {
                let bad = if mutation == "bad_hash_len" { "QUJDREVGR0hJSg".to_string() } else { "!!!not base64!!!".to_string() };
                // damage one of the password fields that exist (add a server password if none)
                let mut targets: Vec<String> = vec![];
                if cfg_file.password.is_none() && cfg_file.operators.is_empty() {
                    cfg_file.password = Some("srvpw".into());
                }
                if let Some(p) = &cfg_file.password {
                    targets.push(p.clone());
                }
                for o in &cfg_file.operators {
                    targets.push(o.password.clone());
                }
                for u in &cfg_file.users {
                    if let Some(p) = &u.password {
                        targets.push(p.clone());
                    }
                }
                let t = targets[r.below(targets.len())].clone();
                hashes.insert(t.clone(), bad);
                detail = format!("hash of {:?}", t);
                expect = "err";
            }
            "bad_oper_name" => {
                cfg_file.operators.push(OperCfg { name: ["op.er", "#oper", "a:b", "x,y"][r.below(4)].into(), password: "pw".into(), mask: None });
                expect = "err";
            }
            "bad_user_name" => {
                cfg_file.users.push(UserCfg { name: ["us.er", "&user", "a,b"][r.below(3)].into(), nick: "nn".into(), password: None, mask: None });
                expect = "err";
            }
            "bad_user_nick" => {
                cfg_file.users.push(UserCfg { name: "okname".into(), nick: ["ni.ck", "#nick", "a:b"][r.below(3)].into(), password: None, mask: None });
                expect = "err";
            }
            "bad_chan_name" => {
                cfg_file.channels.push(ChanCfg { name: ["noprefix", "#a,b", "#a:b", ""][r.below(4)].into(), ..Default::default() });
                expect = "err";
            }
            "missing_file" => {
                expect = "err";
            }
            "cert_without_key" => {
                cli.extend(["-C".to_string(), "cert.crt".to_string()]);
                expect = "err";
            }
            "key_without_cert" => {
                cli.extend(["-K".to_string(), "cert_key.crt".to_string()]);
                expect = "err";
            }
            "cert_and_key" => {
                cli.extend(["-C".to_string(), "cert.crt".to_string(), "-K".to_string(), "cert_key.crt".to_string()]);
            }
            _ => {}
        }
        let rendered = render(&cfg_file, &doc, &hashes);
        let mut toml = rendered.toml;
        match mutation {
            "missing_field" => {
                let req = ["name", "admin_info", "info", "listen", "port", "network", "ping_timeout", "pong_timeout", "motd", "dns_lookup", "log_level", "invisible", "wallops"];
                let k = req[r.below(req.len())];
                toml = toml.lines().filter(|l| !l.starts_with(&format!("{} =", k))).collect::<Vec<_>>().join("\n");
                toml.push('\n');
                detail = k.to_string();
                expect = "err";
            }
            "ill_typed" => {
                let subs = [("port = 6667", "port = \"abc\""), ("ping_timeout = 100000", "ping_timeout = -5"), ("dns_lookup = false", "dns_lookup = \"no\""), ("log_level = \"INFO\"", "log_level = \"CHATTY\""), ("listen = \"127.0.0.1\"", "listen = \"not an address\""), ("wallops = ", "wallops = 3 #"), ("port = 6667", "port = 70000")];
                let (a, b) = subs[r.below(subs.len())];
                toml = toml.replacen(a, b, 1);
                detail = b.to_string();
                expect = "err";
            }
            "duplicate_key" => {
                toml = format!("name = \"dup.example\"\n{}", toml);
                expect = "err";
            }
            "truncated" => {
                let n = r.below(toml.len());
                let mut cut = n;
                while !toml.is_char_boundary(cut) {
                    cut -= 1;
                }
                toml.truncate(cut);
                detail = format!("at byte {}", cut);
                expect = "implication";
            }
            _ => {}
        }
        // behaviour part (only meaningful when the server starts)
        let mut actions = vec![];
        if expect == "ok" {
            let mut prof = profile_for("C20");
            prof.steps = (15, 40);
            prof.pre_register = 3;
            let mut g = Gen::new(r.next_u64(), &cfg, &prof);
            // every difference between the documented configuration and the behaviour is this property's business
            g.mark("ctx:C20");
            g.setup();
            g.say(0, "MOTD");
            g.say(0, "ADMIN");
            g.say(0, "LIST");
            // password neighbours against the real hashes
            for o in cfg.operators.clone() {
                let p = o.password.clone();
                let mut near = vec![format!("{}x", p), p.chars().take(p.chars().count().saturating_sub(1)).collect::<String>(), p.to_uppercase(), format!(" {}", p)];
                near.retain(|x| *x != p && !x.is_empty());
                let c = r.below(std::cmp::max(1, g.registered_conns().len()));
                for np in near.iter().take(2) {
                    g.say(c, &format!("OPER {} :{}", o.name, np));
                }
                g.say(c, &format!("OPER {} :{}", o.name, p));
                g.say(c, &format!("MODE {} -o", g.m.conns[c].nick.clone().unwrap_or_default()));
            }
            if let Some(p) = cfg.password.clone() {
                for np in [format!("{}x", p), p.chars().skip(1).collect::<String>(), p.clone()] {
                    let c = g.open_conn();
                    if g.m.conns[c].alive {
                        g.say(c, &format!("PASS :{}", np));
                        let n = g.uniq;
                        g.uniq += 1;
                        g.say(c, &format!("NICK pw{}", n));
                        g.say(c, &format!("USER pwu{} 0 * :Pw", n));
                    }
                }
            }
            g.run();
            actions = g.actions;
        }
        let mut params = HashMap::new();
        params.insert("mutation".to_string(), mutation.to_string());
        params.insert("detail".to_string(), detail);
        params.insert("expect".to_string(), expect.to_string());
        params.insert("toml".to_string(), toml);
        params.insert("cli".to_string(), cli.join("\u{1f}"));
        params.insert("undocumented".to_string(), rendered.undocumented.join(","));
        Trace { check: "C20".into(), seed: 0, run_seed, config: cfg, params, actions }
    }

    fn exec(&self, trace: &Trace) -> Outcome {
        let t = trace.clone();
        match rt::run_sim_timeout(trace.run_seed, 60, move || async move { exec_inner(t).await }) {
            Ok(o) => o,
            Err(e) => Outcome::harness_error(e),
        }
    }
}

fn valid_hash(h: &str) -> bool {
    crate::validate_password_hash(h).is_ok()
}

/// documented validity of an accepted configuration (independent reading of the rules)
fn accepted_is_valid(mc: &MainConfig) -> Result<(), String> {
    if !mc.name.contains('.') {
        return Err(format!("server name {:?} has no dot", mc.name));
    }
    if let Some(p) = &mc.password {
        if !valid_hash(p) {
            return Err("server password hash malformed".into());
        }
    }
    for o in mc.operators.iter().flatten() {
        if !crate::model::valid_name(&o.name) {
            return Err(format!("operator name {:?} invalid", o.name));
        }
        if !valid_hash(&o.password) {
            return Err(format!("operator {:?} password hash malformed", o.name));
        }
    }
    for u in mc.users.iter().flatten() {
        if !crate::model::valid_name(&u.name) || !crate::model::valid_name(&u.nick) {
            return Err(format!("user {:?}/{:?} invalid", u.name, u.nick));
        }
        if let Some(p) = &u.password {
            if !valid_hash(p) {
                return Err(format!("user {:?} password hash malformed", u.name));
            }
        }
    }
    for c in mc.channels.iter().flatten() {
        if !crate::model::valid_chan(&c.name) {
            return Err(format!("channel name {:?} invalid", c.name));
        }
    }
    Ok(())
}

async fn exec_inner(t: Trace) -> Outcome {
    let mut out = Outcome::new();
    let mutation = t.params.get("mutation").cloned().unwrap_or_default();
    let expect = t.params.get("expect").cloned().unwrap_or_default();
    let detail = t.params.get("detail").cloned().unwrap_or_default();
    out.count(&format!("mut.{}", mutation), 1);
    let mk = |sig: String, msg: String| Violation { property: "C20".into(), class: "config".into(), sig, step: 0, msg };
    if let Some(u) = t.params.get("undocumented") {
        if !u.is_empty() {
            out.violation = Some(mk("setting_not_documented".into(), format!("settings used by the harness are not documented in config-example.toml: {}", u)));
            return out;
        }
    }
    let path = format!("/tmp/sircsim-{}-{:x}.toml", std::process::id(), t.run_seed);
    if mutation != "missing_file" {
        if std::fs::write(&path, t.params.get("toml").cloned().unwrap_or_default()).is_err() {
            out.status = Status::Inconclusive("HARNESS: cannot write temporary configuration file".into());
            return out;
        }
    }
    let mut args: Vec<String> = vec!["simple-irc-server".into(), "-c".into(), path.clone()];
    if let Some(c) = t.params.get("cli") {
        args.extend(c.split('\u{1f}').filter(|x| !x.is_empty()).map(|x| x.to_string()));
    }
    let started: Result<MainConfig, String> = match Cli::try_parse_from(args.iter()) {
        Ok(cli) => MainConfig::new(cli).map_err(|e| e.to_string()),
        Err(e) => Err(format!("cli: {}", e.kind())),
    };
    let _ = std::fs::remove_file(&path);
    out.cov_keys.push(hash_key(&["startup", &mutation, &detail.split(' ').next().unwrap_or(""), if started.is_ok() { "accepted" } else { "rejected" }]));
    match (&started, expect.as_str()) {
        (Ok(mc), "err") => {
            out.violation = Some(mk(format!("accepted_invalid:{}", mutation), format!("the server would start from an invalid configuration ({} {}): name={:?}", mutation, detail, mc.name)));
            return out;
        }
        (Err(e), "ok") => {
            out.violation = Some(mk(format!("rejected_valid:{}", mutation), format!("a configuration that follows config-example.toml is rejected ({}): {}", mutation, e)));
            return out;
        }
        (Ok(mc), _) => {
            if let Err(why) = accepted_is_valid(mc) {
                out.violation = Some(mk(format!("accepted_invalid:{}", mutation), format!("accepted configuration violates the documented rules ({} {}): {}", mutation, detail, why)));
                return out;
            }
            if mutation == "cert_and_key" && mc.tls.is_none() {
                out.violation = Some(mk("tls_options_ignored".into(), "-C and -K given together are not reflected in the configuration".into()));
                return out;
            }
            out.count("startup.accepted", 1);
        }
        (Err(_), _) => {
            out.count("startup.rejected", 1);
            return out;
        }
    }
    if expect != "ok" {
        return out;
    }
    // the server "starts" from exactly what its own start-up path produced
    let mc = started.unwrap();
    let w = World::from_main_config(mc, &t.config).await;
    out.count("behaviour_run", 1);
    if t.config.all_secure {
        out.count("behaviour_run.secure_transport", 1);
    }
    let mut o2 = exec_model_trace_world(t, "C20", w).await;
    o2.cov_keys.extend(out.cov_keys);
    for (k, v) in out.counters {
        *o2.counters.entry(k).or_insert(0) += v;
    }
    // in this check every discrepancy between the documented configuration and the behaviour is C20's business
    if o2.violation.is_none() {
        if let Status::Abandoned(r) = &o2.status {
            if std::env::var("VERIF_DEBUG").is_ok() {
                eprintln!("C20 abandoned: {}", r);
            }
        }
    }
    o2
}
