// gate.rs - the simulator's side of crate::verif_seam::GATE: parks server tasks at lock
// acquisitions / after blocking calls and releases them when the schedule says so.

use crate::rt::Rng;
use crate::verif_seam::{GateFuture, Site, GATE};
use std::cell::RefCell;
use std::future::Future;
use std::pin::Pin;
use std::task::{Context, Poll, Waker};

#[derive(Clone, Copy, Debug, Default)]
pub(crate) struct SiteStats {
    pub passed: u64,
    pub parked: u64,
    pub released: u64,
}

pub(crate) struct Parked {
    pub id: u64,
    pub site: Site,
    pub task: Option<tokio::task::Id>,
    waker: Option<Waker>,
    released: bool,
}

pub(crate) struct GateCtl {
    pub park_per_mille: [u32; 3], // LockRead, LockWrite, Blocking
    pub rng: Rng,
    pub parked: Vec<Parked>,
    next_id: u64,
    pub stats: [SiteStats; 3],
    pub site_log: Vec<u8>,
}

fn idx(s: Site) -> usize {
    match s {
        Site::LockRead => 0,
        Site::LockWrite => 1,
        Site::Blocking => 2,
    }
}

thread_local! {
    static CTL: RefCell<GateCtl> = RefCell::new(GateCtl {
        park_per_mille: [0; 3], rng: Rng::new(0), parked: vec![], next_id: 0,
        stats: [SiteStats::default(); 3], site_log: vec![] });
}

struct ParkFuture {
    id: u64,
}

impl Future for ParkFuture {
    type Output = ();
    fn poll(self: Pin<&mut Self>, cx: &mut Context<'_>) -> Poll<()> {
        CTL.with(|c| {
            let mut c = c.borrow_mut();
            if let Some(pos) = c.parked.iter().position(|p| p.id == self.id) {
                if c.parked[pos].released {
                    c.parked.remove(pos);
                    Poll::Ready(())
                } else {
                    c.parked[pos].waker = Some(cx.waker().clone());
                    Poll::Pending
                }
            } else {
                Poll::Ready(())
            }
        })
    }
}

impl Drop for ParkFuture {
    fn drop(&mut self) {
        let _ = CTL.try_with(|c| {
            if let Ok(mut c) = c.try_borrow_mut() {
                if let Some(pos) = c.parked.iter().position(|p| p.id == self.id) {
                    c.parked.remove(pos);
                }
            }
        });
    }
}

pub(crate) fn install() {
    CTL.with(|c| {
        let mut c = c.borrow_mut();
        c.park_per_mille = [0; 3];
        c.parked.clear();
        c.next_id = 0;
        c.stats = [SiteStats::default(); 3];
        c.site_log.clear();
    });
    GATE.with(|g| {
        *g.borrow_mut() = Some(Box::new(|site: Site| -> Option<GateFuture> {
            CTL.with(|c| {
                let mut c = c.borrow_mut();
                let i = idx(site);
                let rate = c.park_per_mille[i];
                let park = rate > 0 && (c.rng.next_u64() % 1000) < rate as u64;
                if park {
                    c.next_id += 1;
                    let id = c.next_id;
                    c.stats[i].parked += 1;
                    if c.site_log.len() < 64 {
                        c.site_log.push(i as u8);
                    }
                    c.parked.push(Parked { id, site, task: tokio::task::try_id(), waker: None, released: false });
                    Some(Box::pin(ParkFuture { id }) as GateFuture)
                } else {
                    c.stats[i].passed += 1;
                    None
                }
            })
        }));
    });
}

pub(crate) fn uninstall() {
    GATE.with(|g| *g.borrow_mut() = None);
}

pub(crate) fn set_policy(rates: [u32; 3], seed: u64) {
    CTL.with(|c| {
        let mut c = c.borrow_mut();
        c.park_per_mille = rates;
        c.rng = Rng::new(seed);
    });
}

/// number of currently parked (not yet released) tasks
pub(crate) fn parked_count() -> usize {
    CTL.with(|c| c.borrow().parked.iter().filter(|p| !p.released).count())
}

pub(crate) fn parked_sites() -> Vec<(u64, Site, Option<tokio::task::Id>)> {
    CTL.with(|c| c.borrow().parked.iter().filter(|p| !p.released).map(|p| (p.id, p.site, p.task)).collect())
}

/// release the k-th (in park order) still-parked task; returns false if none
pub(crate) fn release_nth(k: usize) -> bool {
    CTL.with(|c| {
        let mut c = c.borrow_mut();
        let mut n = 0;
        for p in c.parked.iter_mut() {
            if !p.released {
                if n == k {
                    p.released = true;
                    let i = idx(p.site);
                    let w = p.waker.take();
                    c.stats[i].released += 1;
                    if let Some(w) = w {
                        w.wake();
                    }
                    return true;
                }
                n += 1;
            }
        }
        false
    })
}

pub(crate) fn release_all() -> usize {
    let mut n = 0;
    while release_nth(0) {
        n += 1;
    }
    n
}

pub(crate) fn stats() -> ([SiteStats; 3], Vec<u8>) {
    CTL.with(|c| {
        let c = c.borrow();
        (c.stats, c.site_log.clone())
    })
}
