// c13.rs - C13: lines are framed and parsed by the IRC grammar, and relays re-parse identically.
// Differential worlds, no semantic model:
//   world B: every test line in canonical encoding, one line per segment
//   world A: the same lines in a variant encoding (verb case, blank runs, leading blanks, :source,
//            last parameter with/without " :", colons inside parameters, empty trailing)
//   world C: canonical encoding, transport re-segmented (fragments at arbitrary byte offsets, pipelining,
//            short reads)
// All connections' transcripts must agree; over-long lines and empty lines must be as if never sent;
// relayed commands must re-tokenise to what the originator sent; output must be CRLF-framed.

use crate::canon::canon;
use crate::framework::*;
use crate::irc;
use crate::rt::{self, Rng};
use crate::world::*;
use std::collections::HashMap;

pub(crate) struct C13;

const S: usize = 0; // subject
const R1: usize = 1; // shares #c with the subject
const R2: usize = 2; // outsider, +w

fn canonical(tokens: &[String]) -> String {
    // VERB p1 p2 ... :last   (the last parameter always as trailing)
    let mut s = tokens[0].to_ascii_uppercase();
    for (i, p) in tokens.iter().enumerate().skip(1) {
        s.push(' ');
        if i + 1 == tokens.len() {
            s.push(':');
        }
        s.push_str(p);
    }
    s
}

fn variant(r: &mut Rng, tokens: &[String]) -> (String, String) {
    let mut kinds: Vec<&str> = vec![];
    let mut s = String::new();
    if r.chance(1, 5) {
        s.push_str(["  ", " ", "   "][r.below(3)]);
        kinds.push("leading_blanks");
    }
    if r.chance(1, 5) {
        s.push_str(":subj ");
        kinds.push("source_prefix");
    }
    let verb = match r.below(4) {
        0 => {
            kinds.push("verb_lower");
            tokens[0].to_ascii_lowercase()
        }
        1 => {
            kinds.push("verb_mixed");
            tokens[0].chars().enumerate().map(|(i, c)| if i % 2 == 0 { c.to_ascii_lowercase() } else { c.to_ascii_uppercase() }).collect()
        }
        _ => tokens[0].to_ascii_uppercase(),
    };
    s.push_str(&verb);
    for (i, p) in tokens.iter().enumerate().skip(1) {
        if r.chance(1, 5) {
            s.push_str(["  ", "   "][r.below(2)]);
            kinds.push("blank_runs");
        } else {
            s.push(' ');
        }
        let last = i + 1 == tokens.len();
        let needs_colon = p.is_empty() || p.contains(' ') || p.starts_with(':');
        if last && (needs_colon || r.chance(1, 2)) {
            s.push(':');
        } else if last {
            kinds.push(if p.contains(':') { "last_without_colon_marker_with_inner_colon" } else { "last_without_colon_marker" });
        } else if p.contains(':') {
            kinds.push("colon_in_middle_param");
        }
        s.push_str(p);
    }
    if kinds.is_empty() {
        kinds.push("plain");
    }
    kinds.sort();
    kinds.dedup();
    (s, kinds.join("+"))
}

fn texts(r: &mut Rng, n: u32) -> String {
    let pool = [
        "plain", "two words", "colon:inside", ":leading colon", "trailing colon:", "a : b", " leading blank", "trailing blank ", "żółć ünï", "x", "semi;colon",
        "tab\there", "1:2:3", "::", "hash #c", "",
    ];
    let t = pool[r.below(pool.len())];
    match r.below(14) {
        0 => " ".to_string(),
        1 => "  ".to_string(),
        2 | 3 => {
            // texts without any blank: the last parameter then needs its ' :' marker only because of its colons
            let nb = [":-)", "::", ":x", "a:b", ":", "x:", ":żółć"][r.below(7)];
            format!("{}{}", nb, n)
        }
        _ => {
            if t.is_empty() {
                String::new()
            } else if r.chance(1, 2) {
                // unique number first: the text keeps its own ending (trailing blanks and colons stay last)
                format!("{} {}", n, t)
            } else {
                format!("{} {}", t, n)
            }
        }
    }
}

fn word(r: &mut Rng, n: u32) -> String {
    // a parameter without blanks (may contain colons, but not at the start)
    let pool = ["word", "co:lon", "a:b:c", "x", "żółć", "semi;"];
    format!("{}{}", pool[r.below(pool.len())], n)
}

impl Check for C13 {
    fn id(&self) -> &'static str {
        "C13"
    }
    fn runs(&self, tier: Tier) -> u64 {
        match tier {
            Tier::Quick => 8000,
            Tier::Thorough => 400_000,
        }
    }
    fn rule(&self) -> String {
        "three-world differential: 12-30 test lines per run over 24 verbs (valid, wrong arity, unknown verb), each executed in canonical encoding (world B), in a seeded variant encoding \
         (world A) and canonically but re-segmented (world C: fragments at arbitrary byte offsets incl. inside UTF-8 sequences and between CR and LF, 2-4 lines per segment, short reads); \
         plus lines of length limit-2..limit+2, empty lines, and relay round-trip checks for PRIVMSG/NOTICE/TOPIC/PART/KICK/NICK/INVITE/WALLOPS/AWAY. \
         distinct+nontrivial = (verb, arity, variant-kind set | segmentation kind | length class), counted when the line reached a live connection."
            .into()
    }
    fn assumptions(&self) -> Vec<String> {
        vec![
            "reference grammar: split on SPACE, optional :source, trailing begins at the first ' :' after the command; tabs are ordinary characters".into(),
            "generated texts contain no bare CR, LF or NUL".into(),
            "lines of 1999..2000 bytes may be either executed completely or refused with 417; shorter ones must be executed, longer ones refused".into(),
        ]
    }
    fn probes(&self) -> Vec<&'static str> {
        vec!["variant.colon_in_middle_param", "variant.verb_lower", "variant.source_prefix", "seg.fragmented", "seg.pipelined", "len.over", "len.under", "empty_line", "roundtrip_ok"]
    }

    fn gen(&self, run_seed: u64, _idx: u64, _tier: Tier) -> Trace {
        let mut r = Rng::new(run_seed);
        let mut cfg = SimConfig::default();
        cfg.operators.push(OperCfg { name: "root".into(), password: "rootpw".into(), mask: None });
        cfg.operators.push(OperCfg { name: "co:lon".into(), password: "pw:colon".into(), mask: None });
        let mut a: Vec<Action> = vec![];
        let mut line = |a: &mut Vec<Action>, c: usize, l: &str| {
            a.push(Action::line(c, l));
            a.push(Action::Settle);
        };
        for (i, n) in ["subj", "rone", "rtwo"].iter().enumerate() {
            a.push(Action::Open { ip: format!("10.0.0.{}", i + 1) });
            line(&mut a, i, &format!("NICK {}", n));
            line(&mut a, i, &format!("USER {} 0 * :Real {}", n, n));
        }
        line(&mut a, S, "JOIN #c");
        line(&mut a, R1, "JOIN #c");
        // the receiver holds ranks, so that status-prefixed targets reach it
        line(&mut a, S, "MODE #c +ov rone rone");
        line(&mut a, R2, "MODE rtwo +w");
        line(&mut a, S, "OPER root rootpw");
        let n = r.range(12, 30);
        let mut k = 0u32;
        let mut labels: Vec<String> = vec![];
        for _ in 0..n {
            k += 1;
            let t: Vec<String> = match r.below(30) {
                0..=4 => vec!["PRIVMSG".into(), ["#c", "rone", "rtwo", "#c,rtwo", "@#c", "+#c", "@#c,+#c"][r.below(7)].into(), texts(&mut r, k)],
                5 | 6 => vec!["NOTICE".into(), ["#c", "rone", "@#c", "+#c"][r.below(4)].into(), texts(&mut r, k)],
                7 | 8 => vec!["TOPIC".into(), "#c".into(), texts(&mut r, k)],
                9 => vec!["WALLOPS".into(), texts(&mut r, k)],
                10 => vec!["AWAY".into(), texts(&mut r, k)],
                11 => vec!["KICK".into(), "#c".into(), ["nobody", "rone", "rone"][r.below(3)].into(), texts(&mut r, k)],
                12 => vec!["INVITE".into(), "rtwo".into(), "#c".into()],
                13 => vec!["PART".into(), "#zz".into(), texts(&mut r, k)],
                14 => vec!["MODE".into(), "#c".into(), "+b".into(), ["*!*@2001:db8::1", "x!*@*", "a:b!*@*", "*!*@::1"][r.below(4)].into()],
                15 => vec!["MODE".into(), "#c".into(), "+k".into(), word(&mut r, k)],
                16 => vec!["OPER".into(), ["root", "co:lon"][r.below(2)].into(), ["rootpw", "pw:colon", "wrong:pw"][r.below(3)].into()],
                17 => vec!["JOIN".into(), format!("#j{}", k), word(&mut r, k)],
                18 => vec!["PING".into(), word(&mut r, k)],
                19 => vec!["USERHOST".into(), "rone".into(), "rtwo".into(), "subj".into()],
                20 => vec!["ISON".into(), "rone".into(), "nobody".into()],
                21 => vec!["WHO".into(), ["#c", "r*", "rone"][r.below(3)].into()],
                22 => vec!["WHOIS".into(), "rone".into()],
                23 => {
                    // unknown verbs, also ones whose non-ASCII letters turn into a known verb under Unicode case mapping
                    // (dotless i, long s, sharp s, Kelvin sign): commands are matched case-insensitively in ASCII only
                    let v = ["FROBNICATE", "FROBNICATE", "jo\u{131}n", "name\u{17f}", "pa\u{df}", "\u{212a}ick", "l\u{131}st", "priv\u{1e9e}msg"][r.below(8)];
                    let arg = if v.starts_with("jo") || v.starts_with("name") { "#c".to_string() } else { word(&mut r, k) };
                    vec![v.into(), arg]
                }
                24 => {
                    // wrong arity
                    let v = ["PRIVMSG", "KICK", "INVITE", "TOPIC", "MODE", "USERHOST", "OPER", "JOIN", "PING", "NICK"][r.below(10)];
                    let ar = r.below(2);
                    let mut t = vec![v.to_string()];
                    for _ in 0..ar {
                        t.push(word(&mut r, k));
                    }
                    t
                }
                25 => vec!["KILL".into(), "nobody".into(), texts(&mut r, k)],
                26 => vec!["NAMES".into(), "#c".into()],
                27 => vec!["LIST".into()],
                28 => vec!["PART".into(), "#c".into(), texts(&mut r, k)],
                _ => vec!["JOIN".into(), "#c".into()],
            };
            let can = canonical(&t);
            let (var, kind) = variant(&mut r, &t);
            labels.push(format!("{}/{}/{}", t[0], t.len() - 1, kind));
            a.push(Action::Mark { m: format!("variant:{}", esc(var.as_bytes())) });
            a.push(Action::Mark { m: format!("tokens:{}", t.iter().map(|x| esc(x.as_bytes())).collect::<Vec<_>>().join("\u{1f}")) });
            line(&mut a, S, &can);
            if t[0] == "KICK" && t.get(2).map_or(false, |x| x == "rone") && t.len() >= 3 {
                // the kicked receiver comes back (and gets its ranks back) so that later lines still reach it
                line(&mut a, R1, "JOIN #c");
                line(&mut a, S, "MODE #c +ov rone rone");
            }
            if t[0] == "AWAY" && !t[1].is_empty() {
                a.push(Action::Mark { m: format!("away_probe:{}", esc(t[1].as_bytes())) });
                line(&mut a, R2, "PRIVMSG subj :are you away");
            }
            if r.chance(1, 10) {
                a.push(Action::Mark { m: "emptyline".into() });
                a.push(Action::Send { c: S, d: esc([&b"\r\n"[..], &b"\n"[..], &b"   \r\n"[..], &b"\r\n\r\n"[..]][r.below(4)]) });
                a.push(Action::Settle);
            }
        }
        // length classes (the subject's last acts: an over-long line may close it)
        let target_len = [1990usize, 1996, 1997, 1998, 1999, 2000, 2001, 2002, 2005, 2500, 4200][r.below(11)];
        let head = "PRIVMSG rone :L";
        let mut text = String::new();
        while head.len() + text.len() < target_len.saturating_sub(12) {
            text.push((b'a' + (text.len() % 26) as u8) as char);
        }
        let tail = " JOIN #evil";
        let mut l = format!("{}{}", head, text);
        while l.len() + tail.len() < target_len {
            l.push('z');
        }
        l.push_str(tail);
        l.truncate(target_len);
        a.push(Action::Mark { m: format!("length:{}", l.len()) });
        line(&mut a, S, &l);
        line(&mut a, R1, "PING after");
        line(&mut a, R2, "NAMES #evil");
        let mut params = HashMap::new();
        params.insert("labels".to_string(), labels.join("\u{1e}"));
        params.insert("segseed".to_string(), r.next_u64().to_string());
        Trace { check: "C13".into(), seed: 0, run_seed, config: cfg, params, actions: a }
    }

    fn exec(&self, trace: &Trace) -> Outcome {
        let (ta, tb, tc) = (trace.clone(), trace.clone(), trace.clone());
        let rb = rt::run_sim_timeout(trace.run_seed, 60, move || async move { run_world(tb, 'B').await });
        let ra = rt::run_sim_timeout(trace.run_seed, 60, move || async move { run_world(ta, 'A').await });
        let rc = rt::run_sim_timeout(trace.run_seed, 60, move || async move { run_world(tc, 'C').await });
        let (a, b, c) = match (ra, rb, rc) {
            (Ok(a), Ok(b), Ok(c)) => (a, b, c),
            (Err(e), _, _) | (_, Err(e), _) | (_, _, Err(e)) => return Outcome::harness_error(e),
        };
        let mut out = Outcome::new();
        out.steps = a.steps + b.steps + c.steps;
        out.vt_ms = a.vt_ms + b.vt_ms + c.vt_ms;
        out.digest = a.digest ^ b.digest.rotate_left(1) ^ c.digest.rotate_left(2);
        out.tails = a.tails.clone();
        for (k, v) in b.counters.iter().chain(c.counters.iter()).chain(a.counters.iter()) {
            out.count(k, *v);
        }
        let mk = |sig: String, step: usize, msg: String| Violation { property: "C13".into(), class: "framing".into(), sig, step, msg };
        for wr in [&a, &b, &c] {
            if let Some(p) = &wr.panic {
                out.status = Status::Abandoned(format!("foreign:C05:panic:{}", p));
                return out;
            }
            if let Some(f) = &wr.bad_framing {
                out.violation = Some(mk("output_not_crlf_framed".into(), 0, format!("world {}: {}", wr.name, f)));
                return out;
            }
            if let Some((step, sig, msg)) = &wr.local_violation {
                out.violation = Some(mk(sig.clone(), *step, format!("world {}: {}", wr.name, msg)));
                return out;
            }
        }
        let labels: Vec<String> = trace.params.get("labels").map(|s| s.split('\u{1e}').map(|x| x.to_string()).collect()).unwrap_or_default();
        // A vs B per test line
        for (i, (ua, ub)) in a.units.iter().zip(b.units.iter()).enumerate() {
            let lb = labels.get(i).cloned().unwrap_or_default();
            out.cov_keys.push(hash_key(&["enc", &lb]));
            for k in lb.rsplit('/').next().unwrap_or("").split('+') {
                out.count(&format!("variant.{}", k), 1);
            }
            if ua.sorted != ub.sorted {
                let verb = lb.split('/').next().unwrap_or("").to_string();
                let kind = lb.rsplit('/').next().unwrap_or("").to_string();
                out.violation = Some(mk(
                    format!("encoding:{}:{}", verb, kind),
                    ub.step,
                    format!("line {:?} (canonical {:?}) is read differently: per-connection replies raw={:?} canonical={:?}", ua.sent, ub.sent, ua.sorted, ub.sorted),
                ));
                return out;
            }
        }
        // C vs B as whole transcripts per connection (multisets), order as a probe
        if c.all_sorted != b.all_sorted {
            let mut diff = String::new();
            for (i, (x, y)) in c.all_sorted.iter().zip(b.all_sorted.iter()).enumerate() {
                if x != y {
                    let only_c: Vec<&String> = x.iter().filter(|l| !y.contains(l)).take(3).collect();
                    let only_b: Vec<&String> = y.iter().filter(|l| !x.contains(l)).take(3).collect();
                    diff = format!("conn {}: only re-segmented {:?}; only whole-line {:?}", i, only_c, only_b);
                    break;
                }
            }
            out.violation = Some(mk("segmentation".into(), 0, format!("re-segmenting the same byte stream changes the outcome: {}", diff)));
            return out;
        }
        if c.all_ordered == b.all_ordered {
            out.count("seg.order_identical", 1);
        }
        out.cov_keys.push(hash_key(&["seg", &c.seg_kinds]));
        out.cov_keys.push(hash_key(&["len", &b.len_class]));
        out
    }
}

#[derive(Clone, Debug, Default)]
struct Unit {
    sent: String,
    step: usize,
    sorted: Vec<Vec<String>>,
}

#[derive(Clone, Debug, Default)]
struct WorldRun {
    name: char,
    units: Vec<Unit>,
    all_sorted: Vec<Vec<String>>,
    all_ordered: Vec<Vec<String>>,
    panic: Option<String>,
    bad_framing: Option<String>,
    local_violation: Option<(usize, String, String)>,
    counters: HashMap<String, u64>,
    seg_kinds: String,
    len_class: String,
    steps: u64,
    vt_ms: u64,
    digest: u64,
    tails: Vec<Vec<String>>,
}

async fn run_world(t: Trace, name: char) -> WorldRun {
    let mut wr = WorldRun { name, ..Default::default() };
    let mut w = World::new(&t.config).await;
    let mut r = Rng::new(t.params.get("segseed").and_then(|s| s.parse().ok()).unwrap_or(1));
    let mut variant: Option<Vec<u8>> = None;
    let mut tokens: Option<Vec<String>> = None;
    let mut away_probe: Option<String> = None;
    let mut length: Option<usize> = None;
    let mut empty = false;
    let mut step = 0usize;
    let mut is_test = false;
    let mut sent_txt = String::new();
    // world C: buffer of subject bytes not yet sent (pipelining)
    let mut cbuf: Vec<u8> = vec![];
    let mut cbuf_lines = 0;
    let mut ordered: Vec<Vec<String>> = vec![vec![], vec![], vec![]];
    let mut seg_kinds: Vec<&str> = vec![];
    let n_actions = t.actions.len();
    let mut subject_closed_ok = false;
    for (ai, a) in t.actions.iter().enumerate() {
        match a {
            Action::Mark { m } => {
                if let Some(v) = m.strip_prefix("variant:") {
                    variant = Some(unesc(v));
                    is_test = true;
                } else if let Some(v) = m.strip_prefix("tokens:") {
                    tokens = Some(v.split('\u{1f}').map(|x| String::from_utf8_lossy(&unesc(x)).to_string()).collect());
                } else if let Some(v) = m.strip_prefix("away_probe:") {
                    away_probe = Some(String::from_utf8_lossy(&unesc(v)).to_string());
                } else if let Some(v) = m.strip_prefix("length:") {
                    length = v.parse().ok();
                } else if m == "emptyline" {
                    empty = true;
                }
            }
            Action::Send { c, d } => {
                let mut bytes = unesc(d);
                if empty && name == 'B' {
                    // world B: empty lines are simply not sent
                    continue;
                }
                if *c == S && is_test {
                    sent_txt = String::from_utf8_lossy(&bytes).trim_end().to_string();
                    if name == 'A' {
                        if let Some(v) = variant.take() {
                            bytes = v;
                            bytes.extend_from_slice(b"\r\n");
                            sent_txt = String::from_utf8_lossy(&bytes).trim_end().to_string();
                        }
                    }
                }
                if name == 'C' && *c == S && (is_test || empty) && length.is_none() {
                    cbuf.extend_from_slice(&bytes);
                    cbuf_lines += 1;
                    continue;
                }
                w.apply(&Action::Send { c: *c, d: esc(&bytes) }).await;
            }
            Action::Settle => {
                if empty && name == 'B' {
                    empty = false;
                    continue;
                }
                if name == 'C' && !cbuf.is_empty() {
                    // decide whether to flush now: pipeline up to 4 lines unless something else comes next
                    let next_is_subject_test = t.actions[ai + 1..std::cmp::min(n_actions, ai + 4)]
                        .iter()
                        .find(|x| matches!(x, Action::Send { .. } | Action::Mark { .. }))
                        .map_or(false, |x| matches!(x, Action::Mark { m } if m.starts_with("variant:") || m == "emptyline"));
                    if next_is_subject_test && cbuf_lines < 4 && r.chance(1, 2) {
                        is_test = false;
                        empty = false;
                        continue;
                    }
                    if cbuf_lines > 1 {
                        *wr.counters.entry("seg.pipelined".into()).or_insert(0) += 1;
                        seg_kinds.push("pipelined");
                    }
                    // fragment
                    let buf = std::mem::take(&mut cbuf);
                    cbuf_lines = 0;
                    if r.chance(1, 2) && buf.len() > 2 {
                        let cuts = r.range(1, 4);
                        let mut pts: Vec<usize> = (0..cuts).map(|_| 1 + r.below(buf.len() - 1)).collect();
                        pts.sort();
                        pts.dedup();
                        let mut start = 0;
                        for p in pts {
                            w.apply(&Action::Send { c: S, d: esc(&buf[start..p]) }).await;
                            if r.chance(1, 2) {
                                w.settle().await;
                            }
                            start = p;
                        }
                        w.apply(&Action::Send { c: S, d: esc(&buf[start..]) }).await;
                        *wr.counters.entry("seg.fragmented".into()).or_insert(0) += 1;
                        seg_kinds.push("fragmented");
                    } else {
                        if r.chance(1, 4) {
                            w.apply(&Action::ReadCap { c: S, n: r.range(1, 7) }).await;
                            *wr.counters.entry("seg.short_reads".into()).or_insert(0) += 1;
                            seg_kinds.push("short_reads");
                        }
                        w.apply(&Action::Send { c: S, d: esc(&buf) }).await;
                    }
                }
                w.apply(a).await;
                if name == 'C' {
                    w.apply(&Action::ReadCap { c: S, n: usize::MAX }).await;
                }
                let obs = w.observe();
                for (tid, msg) in rt::take_panic_log() {
                    if tid.and_then(|id| w.conn_of_task(id)).is_some() {
                        wr.panic = Some(msg);
                    }
                }
                let canon_lines: Vec<Vec<String>> = obs.iter().map(|o| o.lines.iter().map(|l| canon(l)).collect()).collect();
                for (i, ls) in canon_lines.iter().enumerate() {
                    if i < 3 {
                        ordered[i].extend(ls.iter().cloned());
                    }
                }
                if is_test && name != 'C' {
                    let sorted: Vec<Vec<String>> = canon_lines
                        .iter()
                        .map(|v| {
                            let mut v = v.clone();
                            v.sort();
                            v
                        })
                        .collect();
                    wr.units.push(Unit { sent: sent_txt.clone(), step, sorted });
                    // (e) relay round trip, judged in the canonical world
                    if name == 'B' {
                        if let Some(tk) = tokens.take() {
                            let verb = tk[0].to_ascii_uppercase();
                            // the specific error for an unknown command / missing parameters
                            let numerics: Vec<String> = obs[S].lines.iter().filter_map(|l| irc::parse(l)).filter(|p| p.is_numeric()).map(|p| p.cmd.clone()).collect();
                            let min_arity = match verb.as_str() {
                                "PRIVMSG" | "NOTICE" | "KICK" | "INVITE" | "OPER" | "KILL" => 2,
                                "TOPIC" | "MODE" | "USERHOST" | "JOIN" | "PING" | "NICK" | "PART" | "WHO" | "WHOIS" | "ISON" | "WALLOPS" => 1,
                                _ => 0,
                            };
                            let unknown_verb = verb == "FROBNICATE" || !verb.is_ascii();
                            if unknown_verb && !numerics.iter().any(|n| n == "421") {
                                wr.local_violation = Some((step, "unknown_command_not_421".into(), format!("unknown command {:?} answered with {:?}", sent_txt, obs[S].lines)));
                            } else if !unknown_verb && tk.len() - 1 < min_arity && !numerics.iter().any(|n| n == "461") {
                                wr.local_violation = Some((step, "missing_params_not_461".into(), format!("{:?} lacks parameters but was answered with {:?}", sent_txt, obs[S].lines)));
                            } else if unknown_verb || tk.len() - 1 < min_arity {
                                *wr.counters.entry("specific_error_ok".into()).or_insert(0) += 1;
                            }
                            let relay = ["PRIVMSG", "NOTICE", "TOPIC", "PART", "KICK", "NICK", "INVITE", "WALLOPS"].contains(&verb.as_str());
                            let refused = obs[S].lines.iter().any(|l| irc::parse(l).map_or(false, |p| p.is_numeric() && p.cmd.starts_with('4') || p.cmd.starts_with("ERROR")));
                            if relay && !refused {
                                let mut found = false;
                                for (ci, o) in obs.iter().enumerate() {
                                    for l in &o.lines {
                                        if let Some(p) = irc::parse(l) {
                                            if p.cmd.to_ascii_uppercase() == verb && p.nick_of_source() == Some("subj") {
                                                found = true;
                                                let mut want: Vec<String> = tk[1..].to_vec();
                                                if verb == "PRIVMSG" || verb == "NOTICE" {
                                                    // one copy per target: the copy carries that single target
                                                    if want[0].contains(',') {
                                                        want[0] = p.p(0).to_string();
                                                    }
                                                }
                                                if p.params != want {
                                                    wr.local_violation = Some((
                                                        step,
                                                        format!("roundtrip:{}", verb),
                                                        format!("relayed line {:?} on conn {} re-parses to {:?}, the originator sent {:?}", l, ci, p.params, want),
                                                    ));
                                                }
                                            }
                                        }
                                    }
                                }
                                if found {
                                    *wr.counters.entry("roundtrip_ok".into()).or_insert(0) += 1;
                                }
                            }
                        }
                    }
                }
                tokens = None;
                if let Some(txt) = away_probe.take() {
                    if name == 'B' {
                        let got: Vec<String> = obs[R2].lines.iter().filter_map(|l| irc::parse(l)).filter(|p| p.cmd == "301").map(|p| p.params.last().cloned().unwrap_or_default()).collect();
                        if got.len() == 1 && got[0] != txt {
                            wr.local_violation = Some((step, "roundtrip:AWAY".into(), format!("away text {:?} is reported as {:?}", txt, got[0])));
                        } else if got.len() == 1 {
                            *wr.counters.entry("roundtrip_ok".into()).or_insert(0) += 1;
                        }
                    }
                }
                if let Some(len) = length.take() {
                    // what the over/under-long line did, judged in each world on its own
                    let delivered: Vec<String> = obs[R1].lines.iter().filter_map(|l| irc::parse(l)).filter(|p| p.cmd == "PRIVMSG").map(|p| p.params.last().cloned().unwrap_or_default()).collect();
                    let got417 = obs[S].lines.iter().any(|l| irc::parse(l).map_or(false, |p| p.cmd == "417"));
                    let whole = delivered.len() == 1 && delivered[0].len() + "PRIVMSG rone :".len() == len;
                    let class = if len <= 1998 { "under" } else if len >= 2001 { "over" } else { "at" };
                    wr.len_class = format!("{}:{}", class, len);
                    *wr.counters.entry(format!("len.{}", class)).or_insert(0) += 1;
                    let ok = match class {
                        "under" => whole && !got417,
                        "over" => delivered.is_empty() && got417,
                        _ => (whole && !got417) || (delivered.is_empty() && got417),
                    };
                    if !ok {
                        wr.local_violation = Some((
                            step,
                            format!("length:{}", class),
                            format!("line of {} bytes: 417={} delivered {} copies (lengths {:?})", len, got417, delivered.len(), delivered.iter().map(|d| d.len()).collect::<Vec<_>>()),
                        ));
                    }
                    if got417 {
                        subject_closed_ok = true;
                    }
                }
                // no part of an over-long line is executed, and nobody else is disturbed
                if !subject_closed_ok && obs[S].eof && wr.local_violation.is_none() {
                    wr.local_violation = Some((step, "subject_closed".into(), format!("the subject was disconnected after {:?}", sent_txt)));
                }
                if obs.get(R1).map_or(false, |o| o.eof) || obs.get(R2).map_or(false, |o| o.eof) {
                    wr.local_violation = Some((step, "bystander_closed".into(), "a bystander was disconnected".into()));
                }
                is_test = false;
                empty = false;
                step += 1;
                if wr.panic.is_some() || wr.local_violation.is_some() {
                    break;
                }
            }
            other => {
                w.apply(other).await;
            }
        }
    }
    // "#evil" must not exist (the tail of the over-long line was not executed): NAMES #evil answered with 366 only
    if ordered[R2].iter().any(|l| l.starts_with("353") && l.contains("#evil")) && wr.local_violation.is_none() {
        wr.local_violation = Some((step, "length:tail_executed".into(), "part of an over-long line was executed (#evil exists)".into()));
    }
    for cn in &w.conns {
        if let Some(f) = &cn.bad_framing {
            wr.bad_framing = Some(f.clone());
        }
    }
    wr.all_ordered = ordered.clone();
    wr.all_sorted = ordered
        .into_iter()
        .map(|mut v| {
            v.sort();
            v
        })
        .collect();
    seg_kinds.sort();
    seg_kinds.dedup();
    wr.seg_kinds = seg_kinds.join("+");
    wr.steps = w.steps;
    wr.digest = w.digest;
    wr.vt_ms = rt::virtual_elapsed_ms();
    wr.tails = w.conns.iter().map(|c| c.all_lines.iter().rev().take(10).rev().cloned().collect()).collect();
    wr
}
