// c17.rs - C17: keep-alive drops dead peers and keeps live ones (timed mode on the virtual clock).

use crate::framework::*;
use crate::irc;
use crate::rt::{self, Rng};
use crate::world::*;
use std::collections::HashMap;

pub(crate) struct C17;

const PINGS: &[u64] = &[1, 2, 5, 30, 100, 120];
const PONGS: &[u64] = &[1, 2, 5, 20, 30, 150];

#[derive(Clone, Debug)]
enum Pat {
    Always { l: u64 },
    Never,
    Late { l: u64 },
    StopsAfter { k: u32, l: u64 },
    OddToken { l: u64 },
    Chatty,
    Unsolicited { every: u64, l: u64 },
    StallHeal { at: u32, dur: u64 },
}

impl Pat {
    fn enc(&self) -> String {
        match self {
            Pat::Always { l } => format!("always:{}", l),
            Pat::Never => "never".into(),
            Pat::Late { l } => format!("late:{}", l),
            Pat::StopsAfter { k, l } => format!("stops:{}:{}", k, l),
            Pat::OddToken { l } => format!("oddtoken:{}", l),
            Pat::Chatty => "chatty".into(),
            Pat::Unsolicited { every, l } => format!("unsolicited:{}:{}", every, l),
            Pat::StallHeal { at, dur } => format!("stallheal:{}:{}", at, dur),
        }
    }
    fn dec(s: &str) -> Option<Pat> {
        let v: Vec<&str> = s.split(':').collect();
        let n = |i: usize| v.get(i).and_then(|x| x.parse::<u64>().ok()).unwrap_or(0);
        Some(match v[0] {
            "always" => Pat::Always { l: n(1) },
            "never" => Pat::Never,
            "late" => Pat::Late { l: n(1) },
            "stops" => Pat::StopsAfter { k: n(1) as u32, l: n(2) },
            "oddtoken" => Pat::OddToken { l: n(1) },
            "chatty" => Pat::Chatty,
            "unsolicited" => Pat::Unsolicited { every: n(1), l: n(2) },
            "stallheal" => Pat::StallHeal { at: n(1) as u32, dur: n(2) },
            _ => return None,
        })
    }
    fn kind(&self) -> &'static str {
        match self {
            Pat::Always { .. } => "always",
            Pat::Never => "never",
            Pat::Late { .. } => "late",
            Pat::StopsAfter { .. } => "stops_after_k",
            Pat::OddToken { .. } => "odd_token",
            Pat::Chatty => "chatty_no_pong",
            Pat::Unsolicited { .. } => "unsolicited_pongs",
            Pat::StallHeal { .. } => "stall_then_heal",
        }
    }
}

fn tick_ms(ping: u64, pong: u64) -> u64 {
    if std::cmp::min(ping, pong) <= 5 {
        100
    } else {
        500
    }
}

impl Check for C17 {
    fn id(&self) -> &'static str {
        "C17"
    }
    fn runs(&self, tier: Tier) -> u64 {
        match tier {
            Tier::Quick => 3600,
            Tier::Thorough => 200_000,
        }
    }
    fn rule(&self) -> String {
        "timed mode: run index enumerates the 36 (ping_timeout, pong_timeout) pairs incl. pong >= ping; 1-3 subject clients each follow a seeded response pattern \
         (always after latency L, never, late, stops after k, arbitrary token, chatty without PONG, unsolicited PONGs, stalled reader that heals) plus an always-answering witness; \
         >= 20 ping periods (up to 40 virtual minutes) per run on the virtual clock. distinct+nontrivial = (ping, pong, pattern kind, latency bucket, k) cells that reached their verdict point."
            .into()
    }
    fn assumptions(&self) -> Vec<String> {
        vec![
            "client reflexes act on a tick grid (100 ms, or 500 ms when both periods exceed 5 s); deadlines are judged with a slack of 3 ticks and latencies within 2 ticks of the deadline are not generated".into(),
            "a PONG (any token) answers every PING outstanding at that moment".into(),
            "a reader stalled for longer than pong_timeout may legitimately be dropped and is not judged".into(),
        ]
    }
    fn probes(&self) -> Vec<&'static str> {
        vec!["verdict.silent_dropped", "verdict.responsive_kept", "cfg.pong_ge_ping", "pattern.stall_then_heal", "pattern.late", "residue_probe_ok", "slowreg.registered_late"]
    }

    fn gen(&self, run_seed: u64, idx: u64, _tier: Tier) -> Trace {
        let mut r = Rng::new(run_seed);
        let cell = (idx % 36) as usize;
        let ping = PINGS[cell / 6];
        let pong = PONGS[cell % 6];
        let tick = tick_ms(ping, pong);
        let mut cfg = SimConfig::default();
        cfg.ping_timeout = ping;
        cfg.pong_timeout = pong;
        let ns = r.range(1, 3);
        let mut pats = vec![];
        let pong_ms = pong * 1000;
        let ping_ms = ping * 1000;
        for _ in 0..ns {
            let maxl = pong_ms.saturating_sub(3 * tick);
            let rl = |r: &mut Rng| -> u64 {
                if maxl == 0 {
                    0
                } else {
                    (r.below((maxl / tick) as usize + 1) as u64) * tick
                }
            };
            let p = match r.below(10) {
                0 | 1 => Pat::Always { l: rl(&mut r) },
                2 => Pat::Never,
                3 => Pat::Late { l: pong_ms + 3 * tick + (r.below(((ping_ms / tick) as usize).max(1)) as u64) * tick },
                4 | 5 => Pat::StopsAfter { k: r.range(1, 6) as u32, l: rl(&mut r) },
                6 => Pat::OddToken { l: rl(&mut r) },
                7 => Pat::Chatty,
                8 => Pat::Unsolicited { every: std::cmp::max(tick, (r.range(1, 8) as u64) * tick), l: rl(&mut r) },
                _ => {
                    if pong_ms >= 8 * tick {
                        Pat::StallHeal { at: r.range(1, 4) as u32, dur: (r.range(1, ((pong_ms - 4 * tick) / tick) as usize) as u64) * tick }
                    } else {
                        Pat::Always { l: 0 }
                    }
                }
            };
            pats.push(p);
        }
        let mut params = HashMap::new();
        params.insert("patterns".to_string(), pats.iter().map(|p| p.enc()).collect::<Vec<_>>().join(";"));
        params.insert("periods".to_string(), r.range(20, 26).to_string());
        // other traffic right after registration: a capability request that is never ended, a NICK change, an AWAY
        let extras: Vec<String> = pats.iter().map(|_| ["", "", "", "CAP REQ :multi-prefix", "CAP LS 302", "NICK renamed", "AWAY :afk", "JOIN #k"][r.below(8)].to_string()).collect();
        params.insert("extras".to_string(), extras.join(";"));
        // a third of the runs: one more connection completes its registration only after one to two and a half
        // ping periods (NICK at once, USER late) and answers whatever PING it is sent meanwhile
        if r.below(3) == 0 {
            let d = ping_ms + (r.below(((3 * ping_ms / 2) / tick) as usize + 1) as u64) * tick;
            params.insert("slowreg".to_string(), format!("{}:{}", d, r.below(2)));
        }
        Trace { check: "C17".into(), seed: 0, run_seed, config: cfg, params, actions: vec![] }
    }

    fn simplify(&self, t: &Trace) -> Vec<Trace> {
        // fewer subjects, fewer periods
        let mut out = vec![];
        if t.params.contains_key("slowreg") {
            let mut t2 = t.clone();
            t2.params.remove("slowreg");
            out.push(t2);
        }
        let pats: Vec<String> = t.params.get("patterns").map(|s| s.split(';').map(|x| x.to_string()).collect()).unwrap_or_default();
        if pats.len() > 1 {
            for i in 0..pats.len() {
                let mut p2 = pats.clone();
                p2.remove(i);
                let mut t2 = t.clone();
                t2.params.insert("patterns".into(), p2.join(";"));
                out.push(t2);
            }
        }
        out
    }

    fn exec(&self, trace: &Trace) -> Outcome {
        let t = trace.clone();
        match rt::run_sim_timeout(trace.run_seed, 120, move || async move { exec_inner(t).await }) {
            Ok(o) => o,
            Err(e) => Outcome::harness_error(e),
        }
    }
}

struct Subj {
    pat: Pat,
    conn: usize,
    nick: String,
    reg_at: u64,
    pings: Vec<u64>,      // times of server PINGs received
    pending: Vec<u64>,    // due times of PONGs to send
    answered: u32,        // number of PINGs this client decided to answer
    error_at: Option<u64>,
    eof_at: Option<u64>,
    first_unanswered: Option<u64>, // time of the first PING it will never answer (in time)
    next_unsolicited: u64,
    next_chat: u64,
    stalled_until: Option<u64>,
    stall_started: bool,
    other_lines: Vec<String>,
    pongs_sent: Vec<u64>,
}

async fn exec_inner(t: Trace) -> Outcome {
    let mut out = Outcome::new();
    let ping = t.config.ping_timeout;
    let pong = t.config.pong_timeout;
    let (ping_ms, pong_ms) = (ping * 1000, pong * 1000);
    let tick = tick_ms(ping, pong);
    let slack = 3 * tick + 5;
    let periods: u64 = t.params.get("periods").and_then(|s| s.parse().ok()).unwrap_or(20);
    let pats: Vec<Pat> = t.params.get("patterns").map(|s| s.split(';').filter_map(Pat::dec).collect()).unwrap_or_default();
    if pong >= ping {
        out.count("cfg.pong_ge_ping", 1);
    }
    let mut w = World::new(&t.config).await;
    let mk = |sig: &str, msg: String| Violation { property: "C17".into(), class: "keepalive".into(), sig: sig.into(), step: 0, msg };
    let mut viol: Option<Violation> = None;
    // witness = connection 0
    let wit = w.open("10.0.0.1", false);
    // every way of completing registration starts the keep-alive: by USER, by NICK, or by CAP END after both
    match t.run_seed % 3 {
        0 => {
            w.apply(&Action::line(wit, "NICK wit")).await;
            w.apply(&Action::line(wit, "USER wit 0 * :Witness")).await;
        }
        1 => {
            w.apply(&Action::line(wit, "USER wit 0 * :Witness")).await;
            w.apply(&Action::line(wit, "NICK wit")).await;
        }
        _ => {
            w.apply(&Action::line(wit, "CAP LS 302")).await;
            w.apply(&Action::line(wit, "NICK wit")).await;
            w.apply(&Action::line(wit, "USER wit 0 * :Witness")).await;
            w.apply(&Action::line(wit, "CAP END")).await;
        }
    }
    // w.apply(&Action::line(wit, "JOIN #k")).await;
    let mut subs: Vec<Subj> = vec![];
    for (i, p) in pats.iter().enumerate() {
        let c = w.open(&format!("10.0.0.{}", i + 2), false);
        let nick = format!("s{}", i);
        match (t.run_seed / 3 + i as u64) % 3 {
            0 => {
                w.apply(&Action::line(c, &format!("NICK {}", nick))).await;
                w.apply(&Action::line(c, &format!("USER {} 0 * :Subject", nick))).await;
            }
            1 => {
                w.apply(&Action::line(c, "CAP REQ :multi-prefix")).await;
                w.apply(&Action::line(c, &format!("USER {} 0 * :Subject", nick))).await;
                w.apply(&Action::line(c, &format!("NICK {}", nick))).await;
                w.apply(&Action::line(c, "CAP END")).await;
                out.count("registered_by_cap_end", 1);
            }
            _ => {
                w.apply(&Action::line(c, &format!("USER {} 0 * :Subject", nick))).await;
                w.apply(&Action::line(c, &format!("NICK {}", nick))).await;
            }
        }
        out.count(&format!("pattern.{}", p.kind()), 1);
        subs.push(Subj {
            pat: p.clone(),
            conn: c,
            nick,
            reg_at: 0,
            pings: vec![],
            pending: vec![],
            answered: 0,
            error_at: None,
            eof_at: None,
            first_unanswered: None,
            next_unsolicited: 0,
            next_chat: 0,
            stalled_until: None,
            stall_started: false,
            other_lines: vec![],
            pongs_sent: vec![],
        });
    }
    // slow registration (see gen): first half now, second half `slow_delay` ms after t0
    let slow_par: Option<(u64, u64)> = t.params.get("slowreg").and_then(|s| {
        let v: Vec<&str> = s.split(':').collect();
        Some((v.first()?.parse().ok()?, v.get(1).and_then(|x| x.parse().ok()).unwrap_or(0)))
    });
    let mut slow_conn: Option<usize> = None;
    let mut slow_completed = false;
    let mut slow_registered_at: Option<u64> = None;
    if let Some((_, order)) = slow_par {
        let c = w.open("10.0.0.9", false);
        let first = if order == 0 { "NICK slowr".to_string() } else { "USER slowr 0 * :Slow".to_string() };
        w.apply(&Action::line(c, &first)).await;
        slow_conn = Some(c);
        out.count("slowreg.opened", 1);
    }
    w.settle().await;
    let _ = w.observe();
    let extras: Vec<String> = t.params.get("extras").map(|s| s.split(';').map(|x| x.to_string()).collect()).unwrap_or_default();
    for (i, s) in subs.iter_mut().enumerate() {
        if let Some(e) = extras.get(i) {
            if !e.is_empty() {
                let line = if e.starts_with("NICK renamed") { format!("NICK renamed{}", i) } else { e.clone() };
                w.apply(&Action::line(s.conn, &line)).await;
                out.count(&format!("extra.{}", e.split(' ').next().unwrap_or("")), 1);
                if e.starts_with("NICK renamed") {
                    s.nick = format!("renamed{}", i);
                }
            }
        }
    }
    w.settle().await;
    let _ = w.observe();
    let t0 = rt::virtual_elapsed_ms() - 1;
    let horizon = t0 + periods * ping_ms + pong_ms + 4 * tick;
    let mut wit_pings: Vec<u64> = vec![];
    let mut wit_tok = 0u32;
    let mut wit_expect: Option<String> = None;
    let mut wit_dead = false;
    let wit_frags = t.run_seed % 2 == 1;
    let mut wit_frag_pending = false;
    let mut now;
    let mut tick_no: u64 = 0;
    loop {
        tick_no += 1;
        tokio::time::sleep(std::time::Duration::from_millis(tick)).await;
        now = rt::virtual_elapsed_ms();
        let obs = w.observe();
        // panics of connection handlers are always a finding
        for (tid, msg) in rt::take_panic_log() {
            if tid.and_then(|id| w.conn_of_task(id)).is_some() {
                viol = Some(mk("handler_panic", format!("connection handler panicked during keep-alive: {}", msg)));
            } else {
                out.helper_panics.push(msg);
            }
        }
        if viol.is_some() {
            break;
        }
        // (a fragment the witness left dangling one tick ago is completed before anything else is sent)
        if wit_frag_pending {
            w.apply(&Action::Send { c: wit, d: esc(b"NG :frag\r\n") }).await;
            wit_frag_pending = false;
        }
        // witness: always answers at once, checks the PONG of its own PINGs
        for l in &obs[wit].lines {
            if let Some(p) = irc::parse(l) {
                if p.cmd == "PING" {
                    wit_pings.push(now);
                    w.apply(&Action::line(wit, "PONG :wit")).await;
                } else if p.cmd == "PONG" {
                    if let Some(tok) = wit_expect.take() {
                        if p.params.last().map(|s| s.as_str()) != Some(tok.as_str()) {
                            viol = Some(mk("pong_token", format!("PING {} answered by {:?}", tok, l)));
                        } else {
                            out.count("client_ping_ponged", 1);
                        }
                    }
                } else if p.cmd.starts_with("ERROR") {
                    wit_dead = true;
                }
            }
        }
        if obs[wit].eof {
            wit_dead = true;
        }
        if wit_dead && viol.is_none() {
            viol = Some(mk("responsive_client_dropped", format!("the always-answering witness was disconnected at t={}ms (ping {}s pong {}s)", now, ping, pong)));
            break;
        }
        if let Some(tok) = &wit_expect {
            viol = Some(mk("pong_token", format!("client PING {} not answered within one tick", tok)));
            break;
        }
        if tick_no % 7 == 0 {
            wit_tok += 1;
            // every form of a client PING: the PONG carries the token (the first parameter), whatever follows it
            let (tok, line) = match wit_tok % 4 {
                0 => (format!("w{}", wit_tok), format!("PING w{}", wit_tok)),
                1 => (format!("w{}", wit_tok), format!("PING w{} irc.sim", wit_tok)),
                2 => (format!("w{}", wit_tok), format!("PING w{} :other server", wit_tok)),
                _ => (format!("w{} sp", wit_tok), format!("PING :w{} sp", wit_tok)),
            };
            w.apply(&Action::line(wit, &line)).await;
            wit_expect = Some(tok);
        }
        // in half of the runs the witness's input is fragmented in time: the beginning of a line stays unfinished in
        // the server's read buffer for a whole tick while replies, keep-alive PINGs and deadlines must go on as usual
        if wit_frags && tick_no % 5 == 2 && !wit_dead {
            w.apply(&Action::Send { c: wit, d: esc(b"PO") }).await;
            wit_frag_pending = true;
            out.count("witness_fragment_pending", 1);
        }
        // the slowly registering connection: answers every PING at once, must never be dropped
        if let (Some(c), Some((delay, order))) = (slow_conn, slow_par) {
            let mut dead = obs[c].eof;
            for l in &obs[c].lines {
                if let Some(p) = irc::parse(l) {
                    if p.cmd == "PING" {
                        let tok = p.params.last().cloned().unwrap_or_default();
                        w.apply(&Action::line(c, &format!("PONG :{}", tok))).await;
                        out.count(if slow_registered_at.is_some() { "slowreg.ping_after_registration" } else { "slowreg.ping_before_registration" }, 1);
                    } else if p.cmd.starts_with("ERROR") {
                        dead = true;
                    } else if p.cmd == "001" {
                        slow_registered_at = Some(now);
                        out.count("slowreg.registered_late", 1);
                    }
                }
            }
            if dead {
                viol = Some(mk(
                    "responsive_client_dropped",
                    format!(
                        "the connection that completed (or was about to complete) its registration {} ms after the others and answered every PING it was sent was disconnected at t={}ms (ping {}s pong {}s, registration completed: {}, welcome at {:?})",
                        delay, now, ping, pong, slow_completed, slow_registered_at
                    ),
                ));
                break;
            }
            if !slow_completed && now >= t0 + delay {
                let second = if order == 0 { "USER slowr 0 * :Slow".to_string() } else { "NICK slowr".to_string() };
                w.apply(&Action::line(c, &second)).await;
                slow_completed = true;
            }
        }
        // subjects
        for s in subs.iter_mut() {
            let o = &obs[s.conn];
            for l in &o.lines {
                if let Some(p) = irc::parse(l) {
                    if p.cmd == "PING" {
                        s.pings.push(now);
                        let n = s.pings.len() as u32;
                        let lat: Option<u64> = match &s.pat {
                            Pat::Always { l } | Pat::OddToken { l } | Pat::Unsolicited { l, .. } => Some(*l),
                            Pat::Never | Pat::Chatty => None,
                            Pat::Late { l } => Some(*l),
                            Pat::StopsAfter { k, l } => {
                                if n <= *k {
                                    Some(*l)
                                } else {
                                    None
                                }
                            }
                            Pat::StallHeal { .. } => Some(0),
                        };
                        match lat {
                            Some(l) => {
                                s.pending.push(now + l);
                                if l > pong_ms && s.first_unanswered.is_none() {
                                    s.first_unanswered = Some(now);
                                }
                            }
                            None => {
                                if s.first_unanswered.is_none() {
                                    s.first_unanswered = Some(now);
                                }
                            }
                        }
                    } else if p.cmd.starts_with("ERROR") {
                        if s.error_at.is_none() {
                            s.error_at = Some(now);
                        }
                    } else if p.cmd == "001" {
                        s.reg_at = now;
                    } else {
                        s.other_lines.push(l.clone());
                    }
                }
            }
            if o.eof && s.eof_at.is_none() {
                s.eof_at = Some(now);
            }
            if s.eof_at.is_some() {
                continue;
            }
            // due PONGs
            let due: Vec<u64> = s.pending.iter().copied().filter(|d| *d <= now).collect();
            s.pending.retain(|d| *d > now);
            for _ in due {
                let line = match &s.pat {
                    Pat::OddToken { .. } => format!("PONG :odd{}", now),
                    _ => "PONG :LALAL".to_string(),
                };
                w.apply(&Action::line(s.conn, &line)).await;
                s.pongs_sent.push(now);
                s.answered += 1;
            }
            match &s.pat {
                Pat::Unsolicited { every, .. } => {
                    if now >= s.next_unsolicited {
                        w.apply(&Action::line(s.conn, "PONG :unasked")).await;
                        s.pongs_sent.push(now);
                        s.next_unsolicited = now + every;
                    }
                }
                Pat::Chatty => {
                    if now >= s.next_chat {
                        w.apply(&Action::line(s.conn, &format!("PRIVMSG wit :still typing at {}", now))).await;
                        w.apply(&Action::line(s.conn, "PING chat")).await;
                        s.next_chat = now + 3 * tick;
                    }
                }
                Pat::StallHeal { at, dur } => {
                    // stall just before the at-th PING is due, heal `dur` later
                    let due_at = t0 + (*at as u64) * ping_ms;
                    if !s.stall_started && now + tick >= due_at {
                        w.apply(&Action::Window { c: s.conn, n: 0 }).await;
                        s.stall_started = true;
                        s.stalled_until = Some(now + dur);
                        out.count("fault.reader_stalled", 1);
                    }
                    if let Some(u) = s.stalled_until {
                        if now >= u {
                            w.apply(&Action::Window { c: s.conn, n: usize::MAX }).await;
                            s.stalled_until = None;
                            out.count("fault.reader_healed", 1);
                        }
                    }
                }
                _ => {}
            }
        }
        if now >= horizon {
            break;
        }
    }
    // verdicts
    if viol.is_none() {
        // witness cadence: PINGs every ping_timeout starting ping_timeout after registration
        let mut prev = t0;
        for (i, p) in wit_pings.iter().enumerate() {
            let d = p - prev;
            if (d as i64 - ping_ms as i64).abs() > slack as i64 {
                viol = Some(mk("ping_cadence", format!("server PING #{} to the witness came {} ms after the previous one (ping_timeout {} s)", i + 1, d, ping)));
                break;
            }
            prev = *p;
        }
        if viol.is_none() && (wit_pings.len() as u64) + 1 < periods {
            viol = Some(mk("ping_cadence", format!("witness received only {} PINGs in {} periods", wit_pings.len(), periods)));
        }
    }
    if viol.is_none() {
        for s in &subs {
            let lbucket = |l: u64| if l == 0 { "L0" } else if l * 2 < pong_ms { "Llow" } else { "Lhigh" };
            let cellk = match &s.pat {
                Pat::Always { l } | Pat::OddToken { l } | Pat::Unsolicited { l, .. } => lbucket(*l).to_string(),
                Pat::StopsAfter { k, l } => format!("k{}{}", k, lbucket(*l)),
                _ => String::new(),
            };
            out.cov_keys.push(hash_key(&[&ping.to_string(), &pong.to_string(), s.pat.kind(), &cellk]));
            // A PONG (any token) answers every PING outstanding at that moment. The first PING with no PONG
            // sent within pong_timeout after it is the one the client "failed to answer".
            let end_obs = now;
            let mut borderline = false;
            let mut failed: Option<u64> = None;
            for p in &s.pings {
                let lo = *p;
                let hi = *p + pong_ms;
                if s.pongs_sent.iter().any(|x| *x + 2 * tick >= hi && *x <= hi + 2 * tick) {
                    borderline = true;
                }
                let answered = s.pongs_sent.iter().any(|x| *x >= lo && *x <= hi);
                if !answered {
                    failed = Some(*p);
                    break;
                }
            }
            if borderline {
                out.count("verdict.borderline_not_judged", 1);
                continue;
            }
            let dropped_at = s.eof_at.or(s.error_at);
            match (failed, dropped_at) {
                (None, None) => {
                    if (s.pings.len() as u64) + 2 < periods {
                        viol = Some(mk("ping_cadence", format!("client {} ({}) received only {} PINGs in {} periods", s.nick, s.pat.enc(), s.pings.len(), periods)));
                        break;
                    }
                    out.count("verdict.responsive_kept", 1);
                }
                (None, Some(x)) => {
                    viol = Some(mk(
                        "responsive_client_dropped",
                        format!(
                            "client {} ({}) answered every PING within pong_timeout but was disconnected at t={}ms (ping {}s pong {}s; PINGs at {:?}, PONGs sent at {:?})",
                            s.nick, s.pat.enc(), x, ping, pong, s.pings, s.pongs_sent
                        ),
                    ));
                    break;
                }
                (Some(p), dropped) => {
                    let deadline = p + pong_ms + slack;
                    if deadline > end_obs {
                        // the verdict point lies beyond the observed horizon
                        out.count("verdict.beyond_horizon", 1);
                        continue;
                    }
                    let ok = s.error_at.map_or(false, |e| e <= deadline) && s.eof_at.map_or(false, |e| e <= deadline);
                    if !ok {
                        viol = Some(mk(
                            "silent_client_not_dropped",
                            format!(
                                "client {} ({}) left the PING of t={}ms unanswered for pong_timeout; expected ERROR+close by t={}ms (ping {}s pong {}s) but ERROR at {:?}, close at {:?}; PINGs at {:?}, PONGs sent at {:?}",
                                s.nick, s.pat.enc(), p, deadline, ping, pong, s.error_at, s.eof_at, s.pings, s.pongs_sent
                            ),
                        ));
                        break;
                    }
                    if let Some(x) = dropped {
                        if x + slack < p + pong_ms {
                            viol = Some(mk(
                                "responsive_client_dropped",
                                format!("client {} ({}) was disconnected at t={}ms, before the pong deadline {}ms of the PING of t={}ms", s.nick, s.pat.enc(), x, p + pong_ms, p),
                            ));
                            break;
                        }
                    }
                    out.count("verdict.silent_dropped", 1);
                }
            }
        }
    }
    // C06-style residue probe for the dropped ones
    if viol.is_none() {
        let dropped: Vec<String> = subs.iter().filter(|s| s.eof_at.is_some()).map(|s| s.nick.clone()).collect();
        if !dropped.is_empty() && !wit_dead {
            let _ = w.observe();
            w.apply(&Action::line(wit, &format!("ISON {}", dropped.join(" ")))).await;
            w.apply(&Action::line(wit, &format!("WHOWAS {}", dropped[0]))).await;
            w.apply(&Action::line(wit, "NAMES #k")).await;
            w.apply(&Action::line(wit, &format!("WHOIS {}", dropped.join(",")))).await;
            w.settle().await;
            let obs = w.observe();
            let mut ison_ok = false;
            let mut whowas_ok = false;
            let mut roster_ok = true;
            for l in &obs[wit].lines {
                if let Some(p) = irc::parse(l) {
                    if p.cmd == "303" && p.params.last().map_or(false, |x| x.trim().is_empty()) {
                        ison_ok = true;
                    }
                    if p.cmd == "314" {
                        whowas_ok = true;
                    }
                    if p.cmd == "353" {
                        let names: Vec<String> = p.params.last().map(|x| x.split(' ').map(|n| n.trim_start_matches(|c| "~&@%+".contains(c)).to_string()).collect()).unwrap_or_default();
                        if dropped.iter().any(|d| names.contains(d)) {
                            roster_ok = false;
                        }
                    }
                    if p.cmd == "311" {
                        roster_ok = false;
                    }
                }
            }
            if !ison_ok || !whowas_ok || !roster_ok {
                viol = Some(mk("residue_after_timeout", format!("after the ping timeout of {:?}: ISON empty={} WHOWAS record={} gone from rosters/WHOIS={} ({:?})", dropped, ison_ok, whowas_ok, roster_ok, obs[wit].lines)));
            } else {
                out.count("residue_probe_ok", 1);
            }
        }
    }
    out.tails = w.conns.iter().map(|c| c.all_lines.iter().rev().take(8).rev().cloned().collect()).collect();
    out.violation = viol;
    out.digest = w.digest;
    out.steps = w.steps;
    out.vt_ms = rt::virtual_elapsed_ms();
    out
}
