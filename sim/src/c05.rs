// c05.rs - C05: no input can crash a session handler or the server (model-free oracle).

use crate::framework::*;
use crate::irc;
use crate::rt::{self, Rng};
use crate::world::*;
use std::collections::HashMap;

pub(crate) struct C05;

const B1: usize = 0;
const B2: usize = 1;
const FZ: usize = 2;

const VERBS: &[(&str, usize)] = &[
    ("CAP", 2), ("AUTHENTICATE", 1), ("PASS", 1), ("NICK", 1), ("USER", 4), ("PING", 1), ("PONG", 1), ("OPER", 2),
    ("QUIT", 1), ("JOIN", 2), ("PART", 2), ("TOPIC", 2), ("NAMES", 1), ("LIST", 2), ("INVITE", 2), ("KICK", 3),
    ("MOTD", 1), ("VERSION", 1), ("ADMIN", 1), ("CONNECT", 3), ("LUSERS", 0), ("TIME", 1), ("STATS", 2), ("LINKS", 2),
    ("HELP", 1), ("INFO", 0), ("MODE", 4), ("PRIVMSG", 2), ("NOTICE", 2), ("WHO", 1), ("WHOIS", 2), ("WHOWAS", 3),
    ("KILL", 2), ("REHASH", 0), ("RESTART", 0), ("SQUIT", 2), ("AWAY", 1), ("USERHOST", 3), ("WALLOPS", 1), ("ISON", 3),
    ("DIE", 1),
];

const STATE_NAMES: &[&str] = &["unregistered", "alone", "founder", "member", "ranked", "ircop", "last_member", "refused_at_completion"];

fn shape_name(i: usize) -> &'static str {
    [
        "chan_existing", "chan_missing", "chan_list_rep", "nick_own", "nick_other", "nick_missing", "nick_list_rep", "empty",
        "long", "multibyte", "mask_wild", "mask_long_literal", "number", "number_extreme", "modestr", "modestr_switch",
        "text", "server", "key", "prefixed_chan", "garbage", "qmask_multibyte", "cap_word", "list_huge", "umodestr",
    ][i]
}
const N_SHAPES: usize = 25;

fn gen_param(r: &mut Rng, shape: usize, own: &str) -> String {
    let chans = ["#mix", "#by", "#solo", "&loc"];
    let nicks_other = ["by1", "by2"];
    match shape {
        0 => r.pick(&chans).to_string(),
        1 => ["#nosuch", "#zz9", "&none"][r.below(3)].to_string(),
        2 => {
            let n = r.range(2, 4);
            (0..n).map(|_| if r.chance(1, 3) { "#nosuch" } else { *r.pick(&chans) }).collect::<Vec<_>>().join(",")
        }
        3 => own.to_string(),
        4 => r.pick(&nicks_other).to_string(),
        5 => ["ghost", "nobody", "root"][r.below(3)].to_string(),
        6 => {
            let n = r.range(2, 4);
            let pool = [own, "by1", "by2", "ghost"];
            (0..n).map(|_| *r.pick(&pool)).collect::<Vec<_>>().join(",")
        }
        7 => String::new(),
        8 => {
            let n = [1, 50, 200, 201, 510, 1000, 1900][r.below(7)];
            let ch = [b'a', b'*', b'?', b'#', b'x'][r.below(5)] as char;
            std::iter::repeat(ch).take(n).collect()
        }
        9 => ["żółć", "ナマエ", "é", "a\u{301}b", "😀x", "ß!ü@ö"][r.below(6)].to_string(),
        10 => ["*", "*!*@*", "?*", "*?*", "**", "by?", "*y*", "*!*@10.0.0.*", "b*!~b*@*", "*@*", "?", "????????????"][r.below(12)].to_string(),
        11 => {
            let n = r.range(5, 60);
            let lit: String = std::iter::repeat('a').take(n).collect();
            match r.below(4) {
                0 => format!("*!*@*{}*", lit),
                1 => format!("*{}", lit),
                2 => format!("*{}*{}", lit, lit),
                _ => format!("{}*{}", lit, lit),
            }
        }
        12 => r.below(10).to_string(),
        13 => ["0", "-1", "18446744073709551615", "18446744073709551616", "99999999999999999999999", "4294967296", "+5", "1e3", " 7"][r.below(9)].to_string(),
        14 => ["+o", "-o", "+v", "+h", "+q", "+a", "+b", "+e", "+I", "+k", "-k", "+l", "-l", "+i", "+m", "+t", "+n", "+s", "+iw", "+O", "-O", "+r", "-r", "+w", "-iw"][r.below(25)].to_string(),
        15 => {
            let n = r.range(2, 8);
            let letters = b"+-qaohvbeIklimtnsOrwz";
            (0..n).map(|_| letters[r.below(letters.len())] as char).collect()
        }
        16 => ["hello", "a b c", ":lead", "x:y", " sp ", "\u{1}ACTION waves\u{1}", "tab\there"][r.below(7)].to_string(),
        17 => ["irc.sim", "other.srv", "*.sim", "nodot"][r.below(4)].to_string(),
        18 => ["key", "k,k", "wrong", ""][r.below(4)].to_string(),
        19 => ["@#mix", "+#mix", "~#mix", "%#mix", "&#mix", "@+#mix", "&&loc", "@&loc", "~&@%+#mix", "@", "&", "@#", "+#nosuch"][r.below(13)].to_string(),
        20 => {
            let n = r.range(1, 12);
            (0..n).map(|_| (33 + r.below(94)) as u8 as char).collect()
        }
        21 => ["?*!*@*", "*é*", "?", "??", "ż*", "*ć", "?ółć!*@*", "*!*é@*", "é?*"][r.below(9)].to_string(),
        22 => ["LS", "LIST", "REQ", "END", "302", "301", "multi-prefix", "multi-prefix bogus", "ls"][r.below(9)].to_string(),
        24 => ["+O", "+o", "-o", "-O", "+oO", "-oO", "+Oo", "+i", "-i", "+w", "-w", "+r", "-r", "+iwO", "-w+w", "+ii"][r.below(16)].to_string(),
        _ => {
            // a comma list of hundreds of short names: one command, tens of kilobytes of replies
            let item = ["x", "#q", "by1", "fz", "#mix", "*"][r.below(6)];
            let n = std::cmp::min(r.range(150, 600), 1800 / (item.len() + 1));
            std::iter::repeat(item).take(n).collect::<Vec<_>>().join(",")
        }
    }
}

/// one grammar-generated line: returns (line bytes, coverage label)
fn gen_line(r: &mut Rng, own: &str) -> (Vec<u8>, String) {
    if r.chance(1, 50) {
        // channel MODE strings whose letters run out of parameters (or get too many) at every position
        let l = [
            "MODE #mix +q", "MODE #mix -a", "MODE #mix +i-q", "MODE #mix +v-a by1", "MODE #mix +o", "MODE #mix +h", "MODE #mix +l", "MODE #mix +k", "MODE #mix -v",
            "MODE #by +q", "MODE #mix +qaohv fz", "MODE #mix +b", "MODE #mix +e", "MODE #mix +I", "MODE #mix -l 5", "MODE #mix -k x y", "MODE #solo +a", "MODE &loc -q",
            "MODE #mix + -", "MODE #mix +t+q", "MODE #mix -o+a fz",
        ][r.below(21)];
        return (l.as_bytes().to_vec(), format!("MODE/arity/{}", l.split(' ').nth(2).unwrap_or("")));
    }
    let unknown = r.chance(1, 40);
    let (verb, maxar) = if unknown { ("FROB", 2) } else { *r.pick(VERBS) };
    let arity = r.below(maxar + 3);
    let mut verb_s = verb.to_string();
    if r.chance(1, 8) {
        verb_s = verb_s.to_lowercase();
    }
    let mut line = String::new();
    if r.chance(1, 12) {
        line.push_str([":fz ", ":by1!~by1@10.0.0.1 ", ":x!y ", ":a@b!c ", ":a:b ", ": "][r.below(6)]);
    }
    line.push_str(&verb_s);
    let mut shapes = vec![];
    for i in 0..arity {
        // bias the shape by verb/position so that lines are often plausible
        let shape = if r.chance(2, 3) {
            match (verb, i) {
                ("JOIN", 0) | ("PART", 0) | ("NAMES", 0) | ("LIST", 0) => [0, 1, 2][r.below(3)],
                ("JOIN", 1) => 18,
                ("TOPIC", 0) | ("KICK", 0) | ("INVITE", 1) => [0, 1][r.below(2)],
                ("KICK", 1) => [3, 4, 5, 6][r.below(4)],
                ("INVITE", 0) | ("KILL", 0) | ("WHOWAS", 0) => [3, 4, 5][r.below(3)],
                ("MODE", 0) => [0, 0, 1, 3, 4, 5][r.below(6)],
                // (a nickname as MODE target is followed by user-mode letters more often than not)
                ("MODE", 1) if shapes.first().map_or(false, |s| [3usize, 4, 5].contains(s)) => [24, 24, 14, 15][r.below(4)],
                ("MODE", 1) => [14, 15][r.below(2)],
                ("MODE", _) => [3, 4, 5, 10, 11, 21, 12, 13, 18, 9][r.below(10)],
                ("PRIVMSG", 0) | ("NOTICE", 0) => [0, 1, 2, 3, 4, 5, 6, 19][r.below(8)],
                ("WHO", 0) | ("WHOIS", _) => [0, 3, 4, 5, 6, 10, 11, 21][r.below(8)],
                ("OPER", 0) => [5, 3][r.below(2)],
                ("CAP", _) => 22,
                ("STATS", 0) => 20,
                ("SQUIT", 0) | ("CONNECT", 0) | ("TIME", 0) | ("MOTD", 0) | ("VERSION", 0) | ("ADMIN", 0) | ("LINKS", _) => 17,
                ("WHOWAS", 1) | ("CONNECT", 1) => [12, 13][r.below(2)],
                ("NICK", 0) | ("USER", 0) => [3, 4, 5, 9, 8, 20][r.below(6)],
                ("ISON", _) | ("USERHOST", _) => [3, 4, 5, 6][r.below(4)],
                _ => r.below(N_SHAPES),
            }
        } else {
            r.below(N_SHAPES)
        };
        shapes.push(shape);
        let mut p = gen_param(r, shape, own);
        // +l wants numbers, +k wants keys: when the previous param was a mode string put something fitting sometimes
        if verb == "MODE" && i >= 2 && r.chance(1, 4) {
            let sh = [12, 13][r.below(2)];
            p = gen_param(r, sh, own);
        }
        line.push(' ');
        let last = i + 1 == arity;
        if last && (p.is_empty() || p.contains(' ') || p.starts_with(':') || r.chance(1, 3)) {
            line.push(':');
        }
        line.push_str(&p);
    }
    let label = format!("{}/{}/{}", verb, arity, shapes.iter().map(|s| shape_name(*s)).collect::<Vec<_>>().join(","));
    (line.into_bytes(), label)
}

fn mutate(r: &mut Rng, mut l: Vec<u8>, other: &[u8]) -> (Vec<u8>, &'static str) {
    match r.below(5) {
        0 if !l.is_empty() => {
            let i = r.below(l.len());
            l[i] ^= 1 << r.below(8);
            // never introduce CR/LF by accident: those are framing, handled by the segmenter
            if l[i] == b'\n' || l[i] == b'\r' {
                l[i] = b'?';
            }
            (l, "bitflip")
        }
        1 if l.len() > 1 => {
            let n = r.below(l.len());
            l.truncate(n);
            (l, "truncate")
        }
        2 => {
            let cut = r.below(l.len() + 1);
            let ocut = r.below(other.len() + 1);
            l.truncate(cut);
            l.extend_from_slice(&other[ocut..]);
            (l, "splice")
        }
        3 => {
            let i = r.below(l.len() + 1);
            let ins: &[u8] = [&b"\xff"[..], &b"\xc3"[..], &b"\x00"[..], &b" : "[..], &b"::"[..], &b",,"[..]][r.below(6)];
            for (k, b) in ins.iter().enumerate() {
                l.insert(i + k, *b);
            }
            (l, "insert")
        }
        _ => {
            // pad to the length limit region
            let target = [1990usize, 1998, 1999, 2000, 2001, 2002, 2500, 4100][r.below(8)];
            if l.len() < target {
                if !l.contains(&b':') {
                    l.extend_from_slice(b" :");
                }
                while l.len() < target {
                    l.push(b'a' + (l.len() % 26) as u8);
                }
            }
            (l, "pad_to_limit")
        }
    }
}

fn reg(actions: &mut Vec<Action>, c: usize, nick: &str, pass: &Option<String>) {
    if let Some(p) = pass {
        actions.push(Action::line(c, &format!("PASS {}", p)));
        actions.push(Action::Settle);
    }
    actions.push(Action::line(c, &format!("NICK {}", nick)));
    actions.push(Action::Settle);
    actions.push(Action::line(c, &format!("USER {} 0 * :Real {}", nick, nick)));
    actions.push(Action::Settle);
}

fn say(actions: &mut Vec<Action>, c: usize, l: &str) {
    actions.push(Action::line(c, l));
    actions.push(Action::Settle);
}

impl C05 {
    fn config(r: &mut Rng) -> SimConfig {
        let mut cfg = SimConfig::default();
        cfg.operators.push(OperCfg { name: "root".into(), password: "rootpw".into(), mask: None });
        if r.chance(1, 3) {
            // the fuzzing client's own nick is a configured operator name in some runs
            cfg.operators.push(OperCfg { name: "fz".into(), password: "fzpw".into(), mask: Some("*!*@10.0.0.*".into()) });
        }
        if r.chance(1, 4) {
            cfg.password = Some("srvpw".into());
        }
        cfg.max_joins = [None, None, Some(1), Some(2), Some(3)][r.below(5)];
        if r.chance(1, 3) {
            cfg.channels.push(ChanCfg {
                name: "&loc".into(),
                topic: Some("local".into()),
                ban: vec!["*!*@10.9.9.9".into()],
                operators: vec!["fz".into()],
                voices: vec!["by2".into()],
                ..Default::default()
            });
        }
        if r.chance(1, 5) {
            cfg.default_user_modes.invisible = true;
        }
        if r.chance(1, 8) {
            cfg.default_user_modes.wallops = true;
        }
        cfg
    }
}

impl Check for C05 {
    fn id(&self) -> &'static str {
        "C05"
    }
    fn runs(&self, tier: Tier) -> u64 {
        match tier {
            Tier::Quick => 40_000,
            Tier::Thorough => 2_000_000,
        }
    }
    fn rule(&self) -> String {
        "each run: 2 bystanders + 1 fuzzing client in one of 7 session states; 12-40 lines from a grammar over all 41 verbs x arity 0..max+2 x 23 parameter shapes, \
         plus byte-level mutations, delivered whole, fragmented at arbitrary byte offsets, or pipelined; in a third of the runs further users come, receive one or several ranks, rename, are kicked and leave in every way between the fuzzing client's lines (environment churn). A case is distinct+nontrivial by its (verb, arity, shape vector, \
         mutation kind, session state) tuple; counted only when the line was actually delivered to a live fuzzing connection."
            .into()
    }
    fn assumptions(&self) -> Vec<String> {
        vec![
            "a handler crash is observed as the connection task's JoinHandle reporting a panic; hangs as no return within 60 s wall".into(),
            "sender closure is excused only for QUIT, failed server password, self-KILL/DIE/SQUIT as IRC operator, invalid UTF-8, line >= 1990 bytes".into(),
            "build profile has overflow-checks on (as in the repository's test profile)".into(),
        ]
    }
    fn probes(&self) -> Vec<&'static str> {
        vec!["fault.fragmented_send", "fault.pipelined_segment", "fault.slow_reader", "fault.short_reads", "net.writer_blocked", "net.short_reads", "mut.bitflip", "mut.pad_to_limit", "sender_closed_excused", "probe_privmsg_ok", "state.ircop", "state.unregistered", "state.refused_at_completion", "fault.churn"]
    }

    fn gen(&self, run_seed: u64, _idx: u64, _tier: Tier) -> Trace {
        let mut r = Rng::new(run_seed);
        let cfg = C05::config(&mut r.fork(1));
        let pass = cfg.password.clone();
        let mut a = vec![];
        let state = r.below(8);
        let fz_ip = ["10.0.0.3", "10.0.0.3", "::1", "2001:db8::17"][r.below(4)];
        a.push(Action::Open { ip: "10.0.0.1".into() });
        a.push(Action::Open { ip: "10.0.0.2".into() });
        a.push(Action::Open { ip: fz_ip.into() });
        reg(&mut a, B1, "by1", &pass);
        reg(&mut a, B2, "by2", &pass);
        say(&mut a, B1, "JOIN #by");
        say(&mut a, B2, "JOIN #by");
        let own = "fz";
        match state {
            0 => {
                if r.chance(1, 2) {
                    say(&mut a, FZ, "NICK fz");
                }
                say(&mut a, B1, "JOIN #mix");
            }
            1 => {
                reg(&mut a, FZ, own, &pass);
                say(&mut a, B1, "JOIN #mix");
            }
            2 => {
                reg(&mut a, FZ, own, &pass);
                say(&mut a, FZ, "JOIN #mix");
                say(&mut a, B1, "JOIN #mix");
                say(&mut a, B2, "JOIN #mix");
            }
            3 | 4 | 5 => {
                reg(&mut a, FZ, own, &pass);
                say(&mut a, B1, "JOIN #mix");
                say(&mut a, B2, "JOIN #mix");
                say(&mut a, FZ, "JOIN #mix");
                if state == 4 {
                    let m = ["+v", "+h", "+o", "+a", "+q", "+hv"][r.below(6)];
                    let args = if m.len() == 3 { "fz fz" } else { "fz" };
                    say(&mut a, B1, &format!("MODE #mix {} {}", m, args));
                }
                if state == 5 {
                    say(&mut a, FZ, "OPER root rootpw");
                }
            }
            7 => {
                // the fuzzing connection claimed a nick, somebody else registered it first, its own completion is refused
                if let Some(p) = &pass {
                    say(&mut a, FZ, &format!("PASS {}", p));
                }
                say(&mut a, FZ, "NICK by1");
                say(&mut a, FZ, "NICK late");
                a.push(Action::Open { ip: "10.0.0.4".into() });
                reg(&mut a, 3, "late", &pass);
                say(&mut a, FZ, "USER fz 0 * :Real fz");
                say(&mut a, B1, "JOIN #mix");
                if r.chance(1, 2) {
                    say(&mut a, FZ, "NICK fz");
                }
            }
            _ => {
                reg(&mut a, FZ, own, &pass);
                say(&mut a, FZ, "JOIN #solo");
                say(&mut a, B1, "JOIN #solo");
                say(&mut a, B1, "PART #solo");
                say(&mut a, B1, "JOIN #mix");
            }
        }
        let n = r.range(12, 40);
        // transport faults on the fuzzing connection: short reads, short writes, a slow reader
        let slow_reader = r.chance(1, 5);
        if r.chance(1, 4) {
            a.push(Action::ReadCap { c: FZ, n: r.range(1, 9) });
            a.push(Action::Mark { m: "short_reads".into() });
        }
        if r.chance(1, 5) {
            a.push(Action::WriteCap { c: FZ, n: r.range(1, 30) });
            a.push(Action::Mark { m: "short_writes".into() });
        }
        if slow_reader {
            a.push(Action::Window { c: FZ, n: r.range(0, 300) });
            a.push(Action::Mark { m: "slow_reader".into() });
        }
        let mut probe_no = 0;
        let churn = r.chance(1, 3);
        let mut churn_live: Option<(usize, String)> = None;
        let mut churn_no = 0;
        let mut next_conn = if state == 7 { 4 } else { 3 };
        let mut labels: Vec<String> = vec![];
        let mut prev: Vec<u8> = b"PRIVMSG #mix :x".to_vec();
        let mut i = 0;
        while i < n {
            // a segment of 1..3 lines
            let k = if r.chance(1, 5) { r.range(2, 3) } else { 1 };
            let mut seg: Vec<u8> = vec![];
            for _ in 0..k {
                let (mut l, mut label) = gen_line(&mut r, own);
                if r.chance(1, 5) {
                    let (m, kind) = mutate(&mut r, l, &prev);
                    l = m;
                    label = format!("{}|{}", label, kind);
                }
                prev = l.clone();
                labels.push(label);
                seg.extend_from_slice(&l);
                seg.extend_from_slice(if r.chance(1, 6) { b"\n" } else { b"\r\n" });
                i += 1;
            }
            if k > 1 {
                a.push(Action::Mark { m: "pipelined".into() });
            }
            // fragmentation
            if r.chance(1, 4) && seg.len() > 2 {
                let cuts = r.range(1, 3);
                let mut pts: Vec<usize> = (0..cuts).map(|_| 1 + r.below(seg.len() - 1)).collect();
                pts.sort();
                pts.dedup();
                let mut start = 0;
                a.push(Action::Mark { m: "fragmented".into() });
                for p in pts {
                    a.push(Action::Send { c: FZ, d: esc(&seg[start..p]) });
                    if r.chance(1, 2) {
                        a.push(Action::Settle);
                    }
                    start = p;
                }
                a.push(Action::Send { c: FZ, d: esc(&seg[start..]) });
            } else {
                a.push(Action::Send { c: FZ, d: esc(&seg) });
            }
            a.push(Action::Settle);
            if slow_reader && r.chance(1, 3) {
                a.push(Action::Grant { c: FZ, n: [1usize, 50, 400, 3000][r.below(4)] });
                a.push(Action::Settle);
            }
            // environment churn: further users come, get (several) ranks, rename, leave in every way - so that the
            // fuzzing client's lines meet state that has just been torn down or moved
            if churn && r.chance(1, 4) {
                a.push(Action::Mark { m: "churn".into() });
                match churn_live {
                    None => {
                        a.push(Action::Open { ip: format!("10.0.1.{}", next_conn) });
                        churn_no += 1;
                        let nick = format!("ch{}", churn_no);
                        reg(&mut a, next_conn, &nick, &pass);
                        say(&mut a, next_conn, ["JOIN #mix,#by", "JOIN #mix", "JOIN #churn,#mix", "JOIN &loc,#mix"][r.below(4)]);
                        let ranks = ["+o", "+v", "+ov", "+hv", "+ao", "+qo", "+qaohv", "+h"][r.below(8)];
                        let args = std::iter::repeat(nick.as_str()).take(ranks.len() - 1).collect::<Vec<_>>().join(" ");
                        say(&mut a, B1, &format!("MODE #mix {} {}", ranks, args));
                        if r.chance(1, 3) {
                            say(&mut a, next_conn, &format!("INVITE fz {}", ["#mix", "#churn"][r.below(2)]));
                        }
                        churn_live = Some((next_conn, nick));
                        next_conn += 1;
                    }
                    Some((c, ref nick)) => {
                        let nick = nick.clone();
                        match r.below(8) {
                            0 => {
                                say(&mut a, c, "QUIT :churn");
                                churn_live = None;
                            }
                            1 => {
                                a.push(Action::Reset { c });
                                a.push(Action::Settle);
                                churn_live = None;
                            }
                            2 => {
                                a.push(Action::CloseWrite { c });
                                a.push(Action::Settle);
                                churn_live = None;
                            }
                            3 => say(&mut a, c, "PART #mix"),
                            4 => {
                                let nn = format!("{}x", nick);
                                say(&mut a, c, &format!("NICK {}", nn));
                                churn_live = Some((c, nn));
                            }
                            5 => say(&mut a, B1, &format!("KICK #mix {}", nick)),
                            6 => say(&mut a, c, "JOIN #mix"),
                            _ => {
                                say(&mut a, c, &format!("MODE #mix -o {}", nick));
                                say(&mut a, c, "AWAY :gone");
                            }
                        }
                    }
                }
            }
            if r.chance(1, 2) {
                probe_no += 1;
                say(&mut a, B1, &format!("PRIVMSG by2 :probe-{}", probe_no));
                say(&mut a, B2, &format!("PING pr-{}", probe_no));
                if !slow_reader {
                    say(&mut a, FZ, &format!("PING fz-{}", probe_no));
                }
            }
        }
        if slow_reader {
            // heal: the reader drains everything; afterwards it must answer again (unless it was closed for a reason)
            a.push(Action::Window { c: FZ, n: usize::MAX });
            a.push(Action::Settle);
            a.push(Action::Settle);
            say(&mut a, FZ, "PING fz-healed");
        }
        probe_no += 1;
        say(&mut a, B1, &format!("PRIVMSG by2 :probe-{}", probe_no));
        say(&mut a, B2, &format!("PRIVMSG #by :chanprobe-{}", probe_no));
        say(&mut a, B2, &format!("PING pr-{}", probe_no));
        // finally the fuzzing session ends (whatever state its lines left behind is torn down) and the others go on
        match r.below(3) {
            0 => say(&mut a, FZ, "QUIT :done"),
            1 => {
                a.push(Action::CloseWrite { c: FZ });
                a.push(Action::Settle);
            }
            _ => {
                a.push(Action::Reset { c: FZ });
                a.push(Action::Settle);
            }
        }
        probe_no += 1;
        say(&mut a, B1, &format!("PRIVMSG by2 :probe-{}", probe_no));
        say(&mut a, B2, &format!("PRIVMSG #by :chanprobe-{}", probe_no));
        say(&mut a, B2, &format!("PING pr-{}", probe_no));
        let mut params = HashMap::new();
        params.insert("state".to_string(), STATE_NAMES[state].to_string());
        params.insert("labels".to_string(), labels.join(";"));
        Trace { check: "C05".into(), seed: 0, run_seed, config: cfg, params, actions: a }
    }

    fn exec(&self, trace: &Trace) -> Outcome {
        let t = trace.clone();
        let res = rt::run_sim_timeout(trace.run_seed, 60, move || async move { exec_inner(t).await });
        match res {
            Ok(o) => o,
            Err(e) if e == "HANG" => {
                let mut o = Outcome::new();
                o.violation = Some(Violation {
                    property: "C05".into(),
                    class: "crash".into(),
                    sig: "hang".into(),
                    step: usize::MAX,
                    msg: "simulated run did not finish within 60 s wall: a handler does not terminate".into(),
                });
                o
            }
            Err(e) => Outcome::harness_error(e),
        }
    }
}

/// verb of a client line, read leniently (the way this server's tokeniser may read it too:
/// a ':' glued to the verb ends it) - C05 must not demand C13's exact grammar.
fn first_token_upper(line: &[u8]) -> String {
    let toks = lenient_tokens(line);
    toks.get(0).cloned().unwrap_or_default().to_ascii_uppercase()
}

fn lenient_tokens(line: &[u8]) -> Vec<String> {
    let s = String::from_utf8_lossy(line).to_string();
    let mut t = s.trim_start();
    if t.starts_with(':') {
        // source prefix
        t = t.splitn(2, |c: char| c == ' ' || c == '\t').nth(1).unwrap_or("");
    }
    t.split(|c: char| c == ' ' || c == '\t' || c == ':').filter(|w| !w.is_empty()).map(|w| w.to_string()).collect()
}

async fn exec_inner(t: Trace) -> Outcome {
    let mut out = Outcome::new();
    let mut w = World::new(&t.config).await;
    let state = t.params.get("state").cloned().unwrap_or_default();
    out.count(&format!("state.{}", state), 1);
    let labels: Vec<String> = t.params.get("labels").map(|s| s.split(';').map(|x| x.to_string()).collect()).unwrap_or_default();
    let mut label_i = 0usize;
    let has_password = t.config.password.is_some();
    let mut fz_oper = t.config.default_user_modes.oper;
    let mut fz_registered = false;
    // lines sent by FZ in the current step (complete lines reconstructed from the byte stream)
    let mut fz_stream: Vec<u8> = vec![];
    let mut fz_step_lines: Vec<Vec<u8>> = vec![];
    let mut fz_step_bytes: Vec<u8> = vec![];
    let mut expect_privmsg: Option<String> = None; // on B2
    let mut expect_chan: Option<String> = None; // on B1
    let mut expect_pong: Option<(usize, String)> = None;
    let mut step = 0usize;
    let mut viol: Option<Violation> = None;
    let mk = |class: &str, sig: String, step: usize, msg: String| Violation { property: "C05".into(), class: class.into(), sig, step, msg };
    let mut ended_ok = false;
    let mut fz_excuse_seen = false;
    let mut killing_seen: Vec<String> = vec![];
    for a in &t.actions {
        match a {
            Action::Send { c, d } => {
                let bytes = unesc(d);
                if *c == FZ {
                    fz_stream.extend_from_slice(&bytes);
                    fz_step_bytes.extend_from_slice(&bytes);
                    while let Some(p) = fz_stream.iter().position(|&b| b == b'\n') {
                        let mut l: Vec<u8> = fz_stream.drain(..=p).collect();
                        l.pop();
                        if l.last() == Some(&b'\r') {
                            l.pop();
                        }
                        fz_step_lines.push(l);
                    }
                } else {
                    let s = String::from_utf8_lossy(&bytes).to_string();
                    let s = s.trim_end();
                    if *c == B1 && s.starts_with("PRIVMSG by2 :probe-") {
                        expect_privmsg = Some(s["PRIVMSG by2 :".len()..].to_string());
                    } else if *c == B2 && s.starts_with("PRIVMSG #by :chanprobe-") {
                        expect_chan = Some(s["PRIVMSG #by :".len()..].to_string());
                    } else if s.starts_with("PING ") {
                        expect_pong = Some((*c, s[5..].to_string()));
                    }
                }
                if *c == FZ {
                    let s = String::from_utf8_lossy(&bytes).to_string();
                    if s.starts_with("PING fz-") && s.ends_with("\r\n") && fz_stream.is_empty() {
                        expect_pong = Some((FZ, s[5..].trim_end().to_string()));
                    }
                }
                w.apply(a).await;
            }
            Action::Mark { m } => {
                if m == "fragmented" {
                    out.count("fault.fragmented_send", 1);
                } else if m == "pipelined" {
                    out.count("fault.pipelined_segment", 1);
                } else {
                    out.count(&format!("fault.{}", m), 1);
                }
            }
            Action::Settle => {
                w.apply(a).await;
                let obs = w.observe();
                // --- bookkeeping on what FZ learnt
                for l in &obs[FZ].lines {
                    if let Some(p) = irc::parse(l) {
                        if p.cmd == "381" {
                            fz_oper = true;
                        }
                        if p.cmd == "001" {
                            fz_registered = true;
                        }
                        if p.cmd == "MODE" && p.params.len() >= 2 && !p.p(0).starts_with('#') && !p.p(0).starts_with('&') {
                            // own user mode echo
                            let mut set = true;
                            for ch in p.p(1).chars() {
                                match ch {
                                    '+' => set = true,
                                    '-' => set = false,
                                    'o' | 'O' => {
                                        if set {
                                            fz_oper = true
                                        }
                                    }
                                    _ => {}
                                }
                            }
                        }
                    }
                }
                // coverage: lines delivered while FZ was alive
                let fz_was_alive = !w.conns[FZ].eof_seen || !obs[FZ].lines.is_empty();
                for l in &fz_step_lines {
                    if !l.starts_with(b"PING fz-") {
                        if fz_was_alive {
                            if let Some(lb) = labels.get(label_i) {
                                out.cov_keys.push(hash_key(&[lb, &state]));
                                if let Some(k) = lb.split('|').nth(1) {
                                    out.count(&format!("mut.{}", k), 1);
                                }
                            }
                        }
                        label_i += 1;
                    }
                }
                // --- 1. panics of connection handlers
                let plog = rt::take_panic_log();
                let mut handler_panic: Option<String> = None;
                for (tid, msg) in &plog {
                    let conn = tid.and_then(|id| w.conn_of_task(id));
                    if conn.is_some() {
                        handler_panic = Some(msg.clone());
                    } else {
                        out.helper_panics.push(msg.clone());
                    }
                }
                let any_conn_panicked = obs.iter().any(|o| o.panicked);
                if let Some(msg) = handler_panic {
                    let loc = msg.rsplit(" @ ").next().unwrap_or("?").to_string();
                    let loc = loc.replace(env!("VERIF_REPO_PATH"), "");
                    viol = Some(mk("crash", format!("panic@{}", loc.trim_start_matches('/')), step, format!("connection handler panicked: {}", msg)));
                } else if any_conn_panicked {
                    viol = Some(mk("crash", "panic@unknown".into(), step, "a connection handler ended by panic".into()));
                }
                // --- 2. bystanders must stay open
                for l in &fz_step_lines {
                    let v = first_token_upper(l);
                    if v == "DIE" || v == "SQUIT" {
                        killing_seen.push("*".to_string());
                    } else if v == "KILL" {
                        if let Some(n) = lenient_tokens(l).get(1) {
                            killing_seen.push(n.clone());
                        }
                    }
                }
                if viol.is_none() {
                    for b in [B1, B2] {
                        if obs[b].eof {
                            let nick = if b == B1 { "by1" } else { "by2" };
                            for l in &fz_step_lines {
                                let v = first_token_upper(l);
                                if v == "DIE" || v == "SQUIT" {
                                    killing_seen.push("*".to_string());
                                } else if v == "KILL" {
                                    if let Some(n) = lenient_tokens(l).get(1) {
                                        killing_seen.push(n.clone());
                                    }
                                }
                            }
                            let sticky = fz_oper && killing_seen.iter().any(|k| k == "*" || k == nick);
                            let excused = sticky
                                || fz_oper
                                && fz_step_lines.iter().any(|l| {
                                    let v = first_token_upper(l);
                                    let s = String::from_utf8_lossy(l).to_string();
                                    let _ = &s;
                                    (v == "KILL" && lenient_tokens(l).get(1).map(|x| x.as_str()) == Some(nick)) || v == "DIE" || v == "SQUIT"
                                });
                            if excused {
                                out.count("bystander_closed_excused", 1);
                                ended_ok = true;
                            } else {
                                viol = Some(mk("crash", "bystander_closed".into(), step, format!("bystander {} was disconnected without a protocol reason", nick)));
                            }
                        }
                    }
                }
                // --- 3. the sender stays open unless the protocol ends it
                // (with a slow reader the server may act on a closing line only when the window opens again:
                // an excuse seen in an earlier step stays valid)
                let excuse_now = fz_step_lines.iter().any(|l| {
                    let v = first_token_upper(l);
                    v == "QUIT"
                        || std::str::from_utf8(l).is_err()
                        || l.len() >= 1990
                        || (!fz_registered && has_password && ["PASS", "NICK", "USER", "CAP"].contains(&v.as_str()))
                        || (fz_oper && ["KILL", "DIE", "SQUIT"].contains(&v.as_str()))
                }) || fz_stream.len() >= 1990
                    || fz_step_bytes.len() >= 1990;
                if excuse_now {
                    fz_excuse_seen = true;
                }
                if viol.is_none() && !ended_ok && obs[FZ].eof {
                    let excused = fz_excuse_seen || fz_step_lines.iter().any(|l| {
                        let v = first_token_upper(l);
                        v == "QUIT"
                            || std::str::from_utf8(l).is_err()
                            || l.len() >= 1990
                            || (!fz_registered && has_password && ["PASS", "NICK", "USER", "CAP"].contains(&v.as_str()))
                            || (fz_oper && ["KILL", "DIE", "SQUIT"].contains(&v.as_str()))
                    }) || fz_stream.len() >= 1990
                        || fz_step_bytes.len() >= 1990;
                    if excused {
                        out.count("sender_closed_excused", 1);
                        ended_ok = true;
                    } else {
                        let shown: Vec<String> = fz_step_lines.iter().map(|l| esc(l)).collect();
                        viol = Some(mk("crash", "sender_closed".into(), step, format!("sender disconnected without a protocol reason after {:?}", shown)));
                    }
                }
                // --- 4. probes
                if viol.is_none() && !ended_ok {
                    if let Some(text) = expect_privmsg.take() {
                        let want = format!(":by1!~by1@10.0.0.1 PRIVMSG by2 :{}", text);
                        if obs[B2].lines.iter().any(|l| *l == want) {
                            out.count("probe_privmsg_ok", 1);
                        } else {
                            viol = Some(mk("crash", "probe_lost".into(), step, format!("bystander by2 did not receive by1's message {:?}; got {:?}", want, obs[B2].lines)));
                        }
                    }
                }
                if viol.is_none() && !ended_ok {
                    if let Some(text) = expect_chan.take() {
                        let want = format!(":by2!~by2@10.0.0.2 PRIVMSG #by :{}", text);
                        if obs[B1].lines.iter().any(|l| *l == want) {
                            out.count("probe_chanmsg_ok", 1);
                        } else {
                            viol = Some(mk("crash", "probe_lost".into(), step, format!("by1 did not receive by2's channel message {:?}; got {:?}", want, obs[B1].lines)));
                        }
                    }
                }
                if viol.is_none() && !ended_ok {
                    if let Some((c, tok)) = expect_pong.take() {
                        if !w.conns[c].eof_seen {
                            let ok = obs[c].lines.iter().any(|l| {
                                irc::parse(l).map_or(false, |p| (p.cmd == "PONG" && p.params.last().map(|x| x.as_str()) == Some(tok.as_str())) || (c == FZ && p.cmd == "451"))
                            });
                            if ok {
                                out.count("probe_ping_ok", 1);
                            } else {
                                viol = Some(mk("crash", "no_pong".into(), step, format!("connection {} did not answer PING {} (stalled?); got {:?}", c, tok, obs[c].lines)));
                            }
                        }
                    }
                }
                fz_step_lines.clear();
                fz_step_bytes.clear();
                step += 1;
                if viol.is_some() || ended_ok {
                    break;
                }
            }
            Action::CloseWrite { c } | Action::Reset { c } if *c == FZ => {
                // the fuzzing client ends its session itself
                fz_excuse_seen = true;
                w.apply(a).await;
            }
            other => {
                w.apply(other).await;
            }
        }
    }
    out.tails = w.conns.iter().map(|c| c.all_lines.iter().rev().take(12).rev().cloned().collect()).collect();
    for (k, v) in w.net_counters() {
        if k != "net.reads" && k != "net.writes" {
            out.count(k, v);
        }
    }
    out.violation = viol;
    out.digest = w.digest;
    out.steps = w.steps;
    out.vt_ms = rt::virtual_elapsed_ms();
    out
}
