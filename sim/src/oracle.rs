// oracle.rs - step oracle: executes a trace on the real server and on the reference model side by
// side, compares every line on every connection after every step (multisets, canonical forms),
// attributes each discrepancy to the properties whose statement covers it (R4), and judges it for
// the property under test: violation / abandoned (foreign class) / fine.

use crate::canon::{canon, mode_canon_parts};
use crate::framework::*;
use crate::irc;
use crate::model::*;
use crate::rt;
use crate::world::*;

#[derive(Clone, Debug, PartialEq)]
pub(crate) enum DKind {
    Missing,
    Extra,
    Mismatch,
    UnexpectedClose,
    MissingClose,
    Panic,
    ServerQuit,
}

#[derive(Clone, Debug)]
pub(crate) struct Disc {
    pub kind: DKind,
    pub c: usize,
    pub exp: Option<String>,
    pub obs: Option<String>,
    pub props: u32,
}

fn head_of(line: &str) -> String {
    // numeric, or the command of a ":src CMD ..." line
    let mut it = line.split(' ');
    let a = it.next().unwrap_or("");
    if a.starts_with(':') {
        it.next().unwrap_or("").to_string()
    } else {
        a.to_string()
    }
}

fn strip_prefix_chars(n: &str) -> &str {
    n.trim_start_matches(|c| "~&@%+".contains(c))
}

/// key under which a missing and an extra line are considered "the same reply with different content"
fn pair_key(line: &str) -> Option<String> {
    let w: Vec<&str> = line.split(' ').collect();
    match w.get(0).copied() {
        Some("353") => Some(format!("353 {}", w.get(2).unwrap_or(&""))),
        Some("352") => Some(format!("352 {} {}", w.get(1).unwrap_or(&""), w.get(4).unwrap_or(&""))),
        Some("319") => Some(format!("319 {}", w.get(1).unwrap_or(&""))),
        Some("324") => Some(format!("324 {}", w.get(1).unwrap_or(&""))),
        Some("322") => Some(format!("322 {}", w.get(1).unwrap_or(&""))),
        Some("221") => Some("221".to_string()),
        Some("302") => Some("302".to_string()),
        Some("303") => Some("303".to_string()),
        Some("332") => Some(format!("332 {}", w.get(1).map(|x| x.split('\u{1f}').next().unwrap_or("")).unwrap_or(""))),
        Some(x) if ["251", "252", "254", "255", "265", "266"].contains(&x) => Some(x.to_string()),
        _ => None,
    }
}

fn refine_pair(exp: &TExp, e: &str, o: &str) -> u32 {
    let ew: Vec<&str> = e.split(' ').collect();
    let ow: Vec<&str> = o.split(' ').collect();
    match ew[0] {
        "353" | "319" => {
            let skip = if ew[0] == "353" { 3 } else { 2 };
            let mut en: Vec<&str> = ew.iter().skip(skip).map(|n| strip_prefix_chars(n)).collect();
            let mut on: Vec<&str> = ow.iter().skip(skip).map(|n| strip_prefix_chars(n)).collect();
            en.sort();
            on.sort();
            if en == on {
                exp.props_rank
            } else {
                exp.props
            }
        }
        "352" => {
            // "352 chan ~user host nick flags<SEP>real"
            let ef = ew.get(5).map(|x| x.split('\u{1f}').next().unwrap_or("")).unwrap_or("");
            let of = ow.get(5).map(|x| x.split('\u{1f}').next().unwrap_or("")).unwrap_or("");
            let mut m = 0;
            if ef.contains('*') != of.contains('*') {
                m |= P11 | P19 | P15;
            }
            if ef.starts_with('G') != of.starts_with('G') {
                m |= P19 | P15;
            }
            let ep: String = ef.chars().filter(|c| "~&@%+".contains(*c)).collect();
            let op: String = of.chars().filter(|c| "~&@%+".contains(*c)).collect();
            if ep != op {
                m |= exp.props_rank;
            }
            if m == 0 {
                exp.props
            } else {
                m
            }
        }
        "322" => {
            // "322 chan count<SEP>topic"
            let ec = ew.get(2).map(|x| x.split('\u{1f}').next().unwrap_or("")).unwrap_or("");
            let oc = ow.get(2).map(|x| x.split('\u{1f}').next().unwrap_or("")).unwrap_or("");
            let et = e.splitn(2, '\u{1f}').nth(1).unwrap_or("");
            let ot = o.splitn(2, '\u{1f}').nth(1).unwrap_or("");
            let mut m = 0;
            if ec != oc {
                m |= P04 | P06;
            }
            if et != ot {
                m |= P09 | P16;
            }
            m
        }
        _ => exp.props,
    }
}

/// properties concerned by a line nobody expected
fn extra_props(line: &str, stim_verbs: &[String], stim_conn: Option<usize>, c: usize, stim_unregistered: bool) -> u32 {
    let h = head_of(line);
    let sv = |v: &str| stim_verbs.iter().any(|x| x == v);
    let mut m = match h.as_str() {
        "PRIVMSG" | "NOTICE" => P01 | P10,
        "JOIN" => P04 | P07,
        "PART" => P04,
        "KICK" => P04 | P09,
        "NICK" => P15 | P04 | P02,
        "TOPIC" | "INVITE" => P09,
        "WALLOPS" => P11,
        "PONG" => P17 | P18,
        "MODE" => {
            let tgt = line.split(' ').nth(2).unwrap_or("");
            if tgt.starts_with('#') || tgt.starts_with('&') {
                P08
            } else {
                P11 | P19
            }
        }
        "353" | "366" | "352" | "315" | "311" | "312" | "317" | "318" | "319" => P04 | P12,
        "321" | "322" | "323" => P16 | P12,
        "324" | "329" | "367" | "368" | "348" | "349" | "346" | "347" => P08,
        "471" | "473" | "474" | "475" | "405" => P07,
        "404" | "301" => P10,
        "251" | "252" | "254" | "255" | "265" | "266" | "302" | "303" => P19,
        "221" | "381" | "491" | "481" | "483" | "502" | "313" | "378" | "379" => P11,
        "451" => P03,
        "001" | "002" | "003" | "004" | "005" | "375" | "372" | "376" => P03 | P20,
        "433" => P02 | P15,
        "314" | "369" | "406" => P06 | P15,
        "464" => {
            if stim_unregistered {
                P03
            } else {
                P11
            }
        }
        "482" | "441" | "442" | "443" | "972" | "341" | "331" | "332" | "333" | "403" | "401" => {
            let mut m = 0;
            if sv("MODE") {
                m |= P08;
            }
            if sv("KICK") || sv("TOPIC") || sv("INVITE") {
                m |= P09;
            }
            if sv("JOIN") {
                m |= P07;
            }
            if sv("PART") {
                m |= P04;
            }
            if sv("PRIVMSG") || sv("NOTICE") {
                m |= P10;
            }
            if sv("KILL") {
                m |= P11;
            }
            m
        }
        "ERROR" => {
            if sv("KILL") || sv("DIE") || sv("SQUIT") {
                P11
            } else {
                0
            }
        }
        _ => 0,
    };
    // anything at all sent back to a NOTICE sender is C10's business
    if sv("NOTICE") && stim_conn == Some(c) && !line.starts_with(':') {
        m |= P10;
    }
    // an unregistered connection must cause nothing observable elsewhere
    if stim_unregistered && stim_conn != Some(c) {
        m |= P03 | P02;
    }
    m
}

fn verb_primary(v: &str) -> u32 {
    match v {
        "PRIVMSG" | "NOTICE" => P01 | P10,
        "JOIN" => P07 | P04 | P16,
        "PART" => P04 | P16,
        "KICK" => P09 | P04,
        "TOPIC" | "INVITE" => P09,
        "MODE" => P08 | P11,
        "NICK" => P15 | P02,
        "OPER" | "KILL" | "DIE" | "SQUIT" | "WALLOPS" | "STATS" => P11,
        "NAMES" | "WHO" | "WHOIS" => P04 | P12,
        "LIST" => P12 | P16,
        "LUSERS" | "ISON" | "USERHOST" => P19,
        "PASS" | "USER" | "CAP" => P03 | P02,
        "WHOWAS" => P06 | P15,
        "QUIT" => P06 | P19,
        "PING" => P17 | P18,
        _ => 0,
    }
}

/// a reply split over several lines (353 per channel, 319 per nick) counts as one: how many names go on a
/// line is the server's choice
fn merge_chunks(lines: &mut Vec<String>) {
    let mut i = 0;
    while i < lines.len() {
        let head: Option<String> = {
            let w: Vec<&str> = lines[i].split(' ').collect();
            match w.get(0).copied() {
                Some("353") if w.len() >= 3 => Some(format!("353 {} {}", w[1], w[2])),
                Some("319") if w.len() >= 2 => Some(format!("319 {}", w[1])),
                _ => None,
            }
        };
        if let Some(h) = head {
            let j = i + 1;
            // chunks of one reply are consecutive lines
            while j < lines.len() {
                let same_head = lines[j].starts_with(&format!("{} ", h)) || lines[j] == h;
                let mut items: Vec<String> = lines[i][h.len()..].split(' ').filter(|x| !x.is_empty()).map(|x| x.to_string()).collect();
                // chunks of one reply never repeat a name; a repeated name means a second, separate reply
                let disjoint = same_head && !lines[j][h.len()..].split(' ').filter(|x| !x.is_empty()).any(|x| items.iter().any(|y| y == x));
                if same_head && disjoint {
                    let extra = lines.remove(j);
                    items.extend(extra[h.len()..].split(' ').filter(|x| !x.is_empty()).map(|x| x.to_string()));
                    items.sort();
                    lines[i] = format!("{} {}", h, items.join(" "));
                } else {
                    break;
                }
            }
        }
        i += 1;
    }
}

pub(crate) fn match_step(exps: &[TExp], obs_canon: &mut Vec<Vec<String>>) -> Vec<Disc> {
    let mut discs: Vec<Disc> = vec![];
    for v in obs_canon.iter_mut() {
        merge_chunks(v);
    }
    let mut missing: Vec<(usize, TExp, String)> = vec![];
    let mut seen_atleast: Vec<(usize, String)> = vec![];
    // 1. exact
    for te in exps {
        if let Exp::Exact { c, line } = &te.e {
            if let Some(pos) = obs_canon[*c].iter().position(|l| l == line) {
                obs_canon[*c].remove(pos);
            } else {
                missing.push((*c, te.clone(), line.clone()));
            }
        }
    }
    for te in exps {
        match &te.e {
            Exp::AtLeast1 { c, line } => {
                // consume one now; further copies are swept below
                if let Some(pos) = obs_canon[*c].iter().position(|l| l == line) {
                    obs_canon[*c].remove(pos);
                } else if !seen_atleast.contains(&(*c, line.clone())) {
                    missing.push((*c, te.clone(), line.clone()));
                }
                seen_atleast.push((*c, line.clone()));
            }
            Exp::ModeAnn { c, head, required, optional } => {
                let pos = obs_canon[*c].iter().position(|l| l == head || l.starts_with(&format!("{} ", head)));
                match pos {
                    Some(pos) => {
                        let l = obs_canon[*c].remove(pos);
                        let rest = if l.len() > head.len() { &l[head.len() + 1..] } else { "" };
                        let sep = if head.starts_with(':') { ',' } else { ' ' };
                        let items: Vec<&str> = rest.split(sep).filter(|x| !x.is_empty()).collect();
                        let mut ok = true;
                        for r in required {
                            if !items.contains(&r.as_str()) {
                                ok = false;
                            }
                        }
                        for it in &items {
                            if !required.iter().any(|r| r == it) && !optional.iter().any(|r| r == it) {
                                ok = false;
                            }
                        }
                        if !ok {
                            let mut props = te.props;
                            if head.starts_with("319 ") {
                                let mut a: Vec<&str> = items.iter().map(|n| strip_prefix_chars(n)).collect();
                                let mut b: Vec<&str> = required.iter().map(|n| strip_prefix_chars(n)).collect();
                                a.sort();
                                b.sort();
                                if a == b {
                                    props = te.props_rank;
                                }
                            }
                            discs.push(Disc {
                                kind: DKind::Mismatch,
                                c: *c,
                                exp: Some(format!("{} required={:?} optional={:?}", head, required, optional)),
                                obs: Some(l),
                                props,
                            });
                        }
                    }
                    None => {
                        if !required.is_empty() {
                            missing.push((*c, te.clone(), format!("{} {:?}", head, required)));
                        }
                    }
                }
            }
            Exp::OnePrefix { c, prefix } => {
                if let Some(pos) = obs_canon[*c].iter().position(|l| l.starts_with(prefix.as_str())) {
                    obs_canon[*c].remove(pos);
                } else {
                    missing.push((*c, te.clone(), format!("{}...", prefix)));
                }
            }
            Exp::AnyOf { c, options } => {
                if let Some(pos) = obs_canon[*c].iter().position(|l| options.contains(l)) {
                    obs_canon[*c].remove(pos);
                } else {
                    missing.push((*c, te.clone(), format!("one of {:?}", options)));
                }
            }
            _ => {}
        }
    }
    for te in exps {
        match &te.e {
            Exp::AtLeast1 { c, line } => obs_canon[*c].retain(|l| l != line),
            Exp::AnyOf { c, options } => obs_canon[*c].retain(|l| !options.contains(l)),
            Exp::Optional { c, options } => obs_canon[*c].retain(|l| !options.contains(l)),
            Exp::OptionalPrefix { c, prefix } => obs_canon[*c].retain(|l| !l.starts_with(prefix.as_str())),
            _ => {}
        }
    }
    // pair missing with extras of the same reply kind
    for (c, te, line) in missing {
        let mut paired = false;
        if let Some(k) = pair_key(&line) {
            if let Some(pos) = obs_canon[c].iter().position(|o| pair_key(o).as_deref() == Some(k.as_str())) {
                let o = obs_canon[c].remove(pos);
                let props = refine_pair(&te, &line, &o);
                discs.push(Disc { kind: DKind::Mismatch, c, exp: Some(line.clone()), obs: Some(o), props });
                paired = true;
            }
        }
        if !paired {
            discs.push(Disc { kind: DKind::Missing, c, exp: Some(line), obs: None, props: te.props });
        }
    }
    discs
}

pub(crate) struct EngineCfg {
    pub prop: &'static str,
    /// extra liveness requirement (C05-style) not needed here
    pub cov_prefixes: Vec<&'static str>,
}

fn verbs_of(bytes: &[u8]) -> Vec<String> {
    String::from_utf8_lossy(bytes)
        .split('\n')
        .filter_map(|l| irc::parse(l.trim_end_matches('\r')))
        .map(|l| l.cmd.to_ascii_uppercase())
        .collect()
}

/// Execute a model-driven trace. `prop` is the property under test.
pub(crate) async fn exec_model_trace(t: Trace, prop: &'static str) -> Outcome {
    let w = World::new(&t.config).await;
    exec_model_trace_world(t, prop, w).await
}

/// As exec_model_trace, on a world the caller built (e.g. from a configuration file parsed by the server itself).
pub(crate) async fn exec_model_trace_world(t: Trace, prop: &'static str, w: World) -> Outcome {
    let mut w = w;
    let mut out = Outcome::new();
    let pbit = prop_bit(prop);
    let mut m = Model::new(&t.config);
    let mut step = 0usize;
    let mut exps: Vec<TExp> = vec![];
    let mut labels: Vec<String> = vec![];
    let mut stim_verbs: Vec<String> = vec![];
    let mut stim_conn: Option<usize> = None;
    let mut stim_unreg = false;
    let mut ctx: u32 = 0;
    let mut ambiguous: Option<String> = None;
    let mut extra_hint: u32 = 0;
    // backpressure episodes ("defer:on" .. "defer:off"): receivers have bounded windows and drain in a
    // seeded order, so lines are compared once, as multisets over the whole episode
    let mut deferring = false;
    let mut deferred_obs: Vec<Vec<String>> = vec![];
    // slow-peer episodes ("slow:on:<c>" .. "slow:off"): only connection c reads through a bounded window; its lines and
    // the expectations addressed to it are held back and compared once, when it has drained; everybody else is
    // judged step by step as usual
    let mut slow_conn: Option<usize> = None;
    let mut slow_release = false;
    let mut slow_obs: Vec<String> = vec![];
    let mut slow_exps: Vec<TExp> = vec![];
    // name (channel or nick) -> (properties of recent operations on it, step of the last one)
    let mut dirty: std::collections::HashMap<String, (u32, usize)> = std::collections::HashMap::new();
    let mut viol: Option<Violation> = None;
    let mut status = Status::Ok;
    'outer: for a in &t.actions {
        match a {
            Action::Open { ip } | Action::OpenSecure { ip } => {
                let se = m.open(ip);
                labels.extend(se.labels);
                stim_verbs.push("OPEN".into());
                w.apply(a).await;
            }
            Action::Send { c, d } => {
                let bytes = unesc(d);
                stim_verbs.extend(verbs_of(&bytes));
                stim_conn = Some(*c);
                stim_unreg = m.conns.get(*c).map_or(false, |x| !x.registered);
                let se = m.input(*c, &bytes);
                if let Some(am) = se.ambiguous {
                    ambiguous = Some(am);
                }
                extra_hint |= se.extra_hint;
                exps.extend(se.exps);
                labels.extend(se.labels);
                w.apply(a).await;
            }
            Action::CloseWrite { c } => {
                stim_verbs.push("EOF".into());
                stim_conn = Some(*c);
                let se = m.close_write(*c);
                exps.extend(se.exps);
                labels.extend(se.labels);
                w.apply(a).await;
            }
            Action::Reset { c } => {
                stim_verbs.push("RESET".into());
                stim_conn = Some(*c);
                let se = m.reset(*c);
                labels.extend(se.labels);
                w.apply(a).await;
            }
            Action::BreakWrites { c } => {
                let se = m.break_writes(*c);
                labels.extend(se.labels);
                w.apply(a).await;
            }
            Action::Window { c, .. } => {
                // a reader with a bounded window is not judged line by line (outside an episode: not at all)
                if !deferring && slow_conn != Some(*c) {
                    if let Some(cn) = m.conns.get_mut(*c) {
                        cn.deaf = true;
                    }
                }
                w.apply(a).await;
            }
            Action::Mark { m: mk } => {
                if mk == "defer:on" {
                    deferring = true;
                    deferred_obs = vec![];
                } else if mk == "defer:off" {
                    deferring = false;
                } else if let Some(rest) = mk.strip_prefix("slow:on:") {
                    slow_conn = rest.parse().ok();
                    slow_release = false;
                } else if mk == "slow:off" {
                    slow_release = true;
                }
                if let Some(rest) = mk.strip_prefix("ctx:") {
                    ctx = rest.split(',').map(|p| prop_bit(p.trim())).fold(0, |a, b| a | b);
                }
            }
            Action::Settle => {
                w.apply(a).await;
                let obs = w.observe();
                if let Some(am) = ambiguous.take() {
                    status = Status::Inconclusive(format!("ambiguous: {}", am));
                    break 'outer;
                }
                let mut obs_canon: Vec<Vec<String>> = obs.iter().map(|o| o.lines.iter().map(|l| canon(l)).collect()).collect();
                while obs_canon.len() < m.conns.len() {
                    obs_canon.push(vec![]);
                }
                if deferring || !deferred_obs.is_empty() {
                    // accumulate; compare when the episode is over
                    while deferred_obs.len() < obs_canon.len() {
                        deferred_obs.push(vec![]);
                    }
                    for (i, v) in obs_canon.iter_mut().enumerate() {
                        deferred_obs[i].append(v);
                    }
                    if deferring {
                        let any_panic = !rt::PANIC_LOG.with(|p| p.borrow().is_empty());
                        if !any_panic {
                            step += 1;
                            continue;
                        }
                    }
                    obs_canon = std::mem::take(&mut deferred_obs);
                    out.count("fault.backpressure_episode", 1);
                }
                if let Some(sc) = slow_conn {
                    // hold back what concerns the slow peer
                    if let Some(v) = obs_canon.get_mut(sc) {
                        slow_obs.append(v);
                    }
                    let (mine, rest): (Vec<TExp>, Vec<TExp>) = std::mem::take(&mut exps).into_iter().partition(|e| e.e.conn() == sc);
                    slow_exps.extend(mine);
                    exps = rest;
                    if slow_release {
                        // the episode is over: judge the slow peer's whole backlog now
                        if let Some(v) = obs_canon.get_mut(sc) {
                            *v = std::mem::take(&mut slow_obs);
                        }
                        exps.extend(std::mem::take(&mut slow_exps));
                        slow_conn = None;
                        slow_release = false;
                        out.count("fault.slow_peer_episode", 1);
                    }
                }
                // deaf / dead connections: nothing is judged on them
                let mut discs = match_step(&exps, &mut obs_canon);
                for (c, rest) in obs_canon.iter().enumerate() {
                    if m.conns.get(c).map_or(true, |x| x.deaf) {
                        continue;
                    }
                    for l in rest {
                        let props = if extra_hint != 0 && stim_conn == Some(c) { extra_hint } else { extra_props(l, &stim_verbs, stim_conn, c, stim_unreg) };
                        discs.push(Disc { kind: DKind::Extra, c, exp: None, obs: Some(l.clone()), props });
                    }
                }
                // closures
                for (c, o) in obs.iter().enumerate() {
                    let alive = m.conns[c].alive;
                    if o.eof && alive {
                        let mut props = P05;
                        if stim_verbs.iter().any(|v| v == "KILL" || v == "DIE" || v == "SQUIT") {
                            props |= P11;
                        }
                        if stim_conn == Some(c) && stim_unreg {
                            props |= P03;
                        }
                        if stim_conn != Some(c) {
                            props |= P02 | P06;
                        }
                        if stim_verbs.iter().any(|v| v == "OPEN") && t.config.max_connections.is_some() && w.conns[c].all_lines.is_empty() {
                            // a connection refused although a slot should be free
                            props = P19;
                        }
                        discs.push(Disc { kind: DKind::UnexpectedClose, c, exp: None, obs: None, props });
                    } else if !o.eof && !alive {
                        let mut props = P06 | P19;
                        if stim_verbs.iter().any(|v| v == "KILL" || v == "DIE" || v == "SQUIT") {
                            props |= P11;
                        }
                        if stim_unreg || m.conns[c].refused {
                            props |= P03 | P19;
                        }
                        discs.push(Disc { kind: DKind::MissingClose, c, exp: None, obs: None, props });
                    }
                }
                if m.server_quit != w.server_quit.is_some() {
                    discs.push(Disc { kind: DKind::ServerQuit, c: 0, exp: Some(format!("{}", m.server_quit)), obs: Some(format!("{:?}", w.server_quit)), props: P11 });
                }
                // panics
                for (tid, msg) in rt::take_panic_log() {
                    match tid.and_then(|id| w.conn_of_task(id)) {
                        Some(c) => {
                            let mut props = P05;
                            for v in &stim_verbs {
                                props |= verb_primary(v);
                            }
                            if msg.contains("utils.rs") {
                                props |= P14;
                            }
                            discs.insert(0, Disc { kind: DKind::Panic, c, exp: None, obs: Some(msg), props });
                        }
                        None => out.helper_panics.push(msg),
                    }
                }
                // coverage
                {
                    let mut sk = String::new();
                    for (n, u) in &m.users {
                        sk.push_str(&format!("{}:{}{}{:?};", n, u.modes.changes(), u.away.is_some() as u8, u.chans));
                    }
                    for (n, c) in &m.chans {
                        sk.push_str(&format!("{}:{:?}{}{}{}{}{}{:?}{:?}{}{}{};", n, c.members, c.fi as u8, c.fm as u8, c.fs as u8, c.ft as u8, c.fnn as u8, c.key, c.limit, c.ban.len(), c.exc.len(), c.invex.len()));
                    }
                    for cn in &m.conns {
                        sk.push_str(&format!("{}{}{}{}|", cn.alive as u8, cn.registered as u8, cn.nick.is_some() as u8, cn.cap_neg as u8));
                    }
                    out.state_keys.push(hash_key(&[&sk]));
                }
                let nu = std::cmp::min(m.users.len(), 4).to_string();
                let nc = std::cmp::min(m.chans.len(), 3).to_string();
                for l in &labels {
                    out.cov_keys.push(hash_key(&[l, &nu, &nc]));
                    if l.starts_with("end/") || l.starts_with("fault/") || l.starts_with("open/") {
                        out.count(l, 1);
                    }
                }
                for (name, mask) in m.touched.drain(..) {
                    let e = dirty.entry(name).or_insert((0, step));
                    if step > e.1 + 20 {
                        e.0 = 0;
                    }
                    e.0 |= mask;
                    e.1 = step;
                }
                // probe discrepancies are also attributed to the recent operations on the objects they mention
                for d in discs.iter_mut() {
                    let is_probe_reply = d.exp.as_deref().or(d.obs.as_deref()).map_or(false, |l| {
                        let h = head_of(l);
                        (h.len() == 3 && h.bytes().all(|b| b.is_ascii_digit()) && !matches!(h.as_str(), "451" | "461" | "421"))
                            || matches!(h.as_str(), "WALLOPS" | "PRIVMSG" | "NOTICE" | "JOIN" | "PART" | "KICK" | "TOPIC" | "MODE" | "INVITE")
                    });
                    if !is_probe_reply || d.props == 0 {
                        continue;
                    }
                    let h = head_of(d.exp.as_deref().or(d.obs.as_deref()).unwrap_or(""));
                    let allowed = match h.as_str() {
                        "324" | "329" => P06 | P08 | P09 | P15 | P16,
                        // mask lists: what is stored after +b/+e/+I and their removal (also by short forms) is C14's and C07's too
                        "367" | "348" | "346" | "368" | "349" | "347" => P06 | P08 | P09 | P15 | P16 | P14 | P07 | P10,
                        "353" | "352" | "319" | "366" | "315" => P04 | P06 | P07 | P09 | P15 | P16,
                        "322" | "331" | "332" | "333" => P04 | P06 | P09 | P16,
                        "221" | "313" | "378" | "379" | "381" => P11 | P15 | P19,
                        "301" => P10 | P15,
                        "302" | "303" | "251" | "252" | "255" | "265" | "266" => P19 | P06 | P15 | P11,
                        "254" => P19 | P06 | P16,
                        "311" | "312" | "317" | "318" | "314" | "369" | "406" | "401" | "433" => P06 | P15 | P02,
                        "403" | "442" | "441" | "443" | "473" | "341" => P06 | P16 | P15 | P09,
                        // relayed lines that reach (or miss) somebody whose identity changed recently
                        "WALLOPS" => P15 | P11 | P06 | P02,
                        "PRIVMSG" | "NOTICE" => P15 | P06 | P02,
                        "JOIN" | "PART" | "KICK" | "TOPIC" | "MODE" | "INVITE" => P15 | P06,
                        _ => 0,
                    };
                    let mut text = format!("{} {}", d.exp.clone().unwrap_or_default(), d.obs.clone().unwrap_or_default());
                    if !h.bytes().all(|b| b.is_ascii_digit()) {
                        // for relays only the receiving user's own recent history counts
                        text = m.conns.get(d.c).and_then(|x| x.nick.clone()).unwrap_or_default();
                    }
                    if matches!(h.as_str(), "251" | "252" | "254" | "255" | "265" | "266") {
                        // global counters: any recent change of the user/channel population may be the cause
                        for (k, (_, at)) in dirty.iter() {
                            if step <= at + 6 {
                                text.push(' ');
                                text.push_str(k);
                            }
                        }
                    }
                    let mut derived = 0u32;
                    for tok in text.split(|c: char| " \u{1f},:!@~&%+=*\"[]".contains(c)) {
                        if let Some((mask, at)) = dirty.get(tok) {
                            if step <= at + 20 {
                                derived |= mask & allowed;
                            }
                        }
                    }
                    // a pure query reply that is wrong is blamed on the recent operations on the objects it
                    // mentions, if there are any; otherwise on the query's own property
                    let is_query = stim_verbs.iter().all(|v| matches!(v.as_str(), "NAMES" | "WHO" | "WHOIS" | "LIST" | "LUSERS" | "ISON" | "USERHOST" | "WHOWAS" | "TOPIC"))
                        || (stim_verbs.iter().all(|v| v == "MODE") && matches!(h.as_str(), "324" | "221"));
                    if is_query && derived != 0 {
                        d.props = derived | (d.props & P12);
                    } else {
                        d.props |= derived;
                    }
                }
                if !discs.is_empty() && std::env::var("VERIF_DEBUG").map_or(false, |v| v == "2") {
                    eprintln!("---- run_seed={} step={} stim={:?} conn={:?}", t.run_seed, step, stim_verbs, stim_conn);
                    for a2 in t.actions.iter() {
                        if let Action::Send { c, d } = a2 {
                            eprintln!("   sent {}> {}", c, d);
                        }
                    }
                    for e in &exps {
                        eprintln!("   exp {:?}", e.e);
                    }
                    for (i, o) in obs.iter().enumerate() {
                        for l in &o.lines {
                            eprintln!("   obs {} <- {}", i, l);
                        }
                    }
                    for d in &discs {
                        eprintln!("   DISC {:?}", d);
                    }
                }
                if !discs.is_empty() {
                    // judge
                    let stim = stim_verbs.first().cloned().unwrap_or_default();
                    let relevant = discs.iter().find(|d| (d.props | if d.props != 0 || ctx != 0 { ctx } else { 0 }) & pbit != 0);
                    if let Some(d) = relevant {
                        let line = d.exp.clone().or(d.obs.clone()).unwrap_or_default();
                        let class = props_names(d.props | ctx).join("+");
                        viol = Some(Violation {
                            property: prop.to_string(),
                            class: format!("{:?}", d.kind),
                            sig: format!("{:?}:{}:{}", d.kind, stim, if d.kind == DKind::Panic { panic_loc(d.obs.as_deref().unwrap_or("")) } else { head_of(&line) }),
                            step,
                            msg: format!(
                                "after {:?} on conn {:?}: conn {} {:?} expected={:?} observed={:?} (attributed to {})",
                                stim_verbs, stim_conn, d.c, d.kind, d.exp, d.obs, class
                            ),
                        });
                    } else {
                        let d = &discs[0];
                        status = Status::Abandoned(format!(
                            "foreign:{}:{:?}:{}",
                            props_names(d.props).join("+"),
                            d.kind,
                            head_of(&d.exp.clone().or(d.obs.clone()).unwrap_or_default())
                        ));
                        if std::env::var("VERIF_DEBUG").is_ok() {
                            eprintln!("ABANDON run_seed={} step={} stim={:?} disc={:?}", t.run_seed, step, stim_verbs, d);
                        }
                    }
                    break 'outer;
                }
                exps.clear();
                extra_hint = 0;
                labels.clear();
                stim_verbs.clear();
                stim_conn = None;
                stim_unreg = false;
                step += 1;
            }
            other => {
                w.apply(other).await;
            }
        }
    }
    out.tails = w.conns.iter().map(|c| c.all_lines.iter().rev().take(14).rev().cloned().collect()).collect();
    for (k, v) in w.net_counters() {
        if k != "net.reads" && k != "net.writes" {
            out.count(k, v);
        }
    }
    out.violation = viol;
    out.status = status;
    out.digest = w.digest;
    out.steps = w.steps;
    out.vt_ms = rt::virtual_elapsed_ms();
    out
}

fn panic_loc(msg: &str) -> String {
    let loc = msg.rsplit(" @ ").next().unwrap_or("?").to_string();
    loc.replace(env!("VERIF_REPO_PATH"), "").trim_start_matches('/').to_string()
}

pub(crate) fn exec_model(trace: &Trace, prop: &'static str) -> Outcome {
    let t = trace.clone();
    match rt::run_sim_timeout(trace.run_seed, 60, move || async move { exec_model_trace(t, prop).await }) {
        Ok(o) => o,
        Err(e) if e == "HANG" => {
            let mut o = Outcome::new();
            o.status = Status::Abandoned("foreign:C05:hang".into());
            if prop == "C05" || prop == "C14" {
                o.violation = Some(Violation { property: prop.into(), class: "hang".into(), sig: "hang".into(), step: usize::MAX, msg: "run did not finish within 60 s wall".into() });
            }
            o
        }
        Err(e) => Outcome::harness_error(e),
    }
}
