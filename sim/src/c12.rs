// c12.rs - C12: secret channels and invisible users stay hidden from outsiders (two-world mode).
// World A executes the whole trace; world B skips the hidden operations. An outside observer's
// replies to LIST / NAMES / WHO / WHOIS must be the same in both worlds.

use crate::canon::canon;
use crate::framework::*;
use crate::gen::*;
use crate::irc;
use crate::rt::{self, Rng};
use crate::stepchecks::profile_for;
use crate::world::*;
use std::collections::HashMap;

pub(crate) struct C12;

fn raw(g: &mut Gen, c: usize, line: &str) {
    g.actions.push(Action::line(c, line));
    g.actions.push(Action::Settle);
}

impl Check for C12 {
    fn id(&self) -> &'static str {
        "C12"
    }
    fn runs(&self, tier: Tier) -> u64 {
        match tier {
            Tier::Quick => 12_000,
            Tier::Thorough => 600_000,
        }
    }
    fn rule(&self) -> String {
        "two-world: each evaluation runs one seeded trace twice - world A with the hidden operations (a secret channel being created, populated, given topic/modes/ranks; or an invisible \
         user registering and joining channels the observer is not on), world B without them - with the same seed (same hash keys, same schedule). An outside observer (plain, IRC operator, \
         invisible itself, or a user who holds an invitation) issues LIST/NAMES/WHO/WHOIS in every form (explicit names, comma lists, wildcard masks, no argument) at several points between \
         public activity of other users; its replies are compared as sorted canonical multisets per query. distinct+nontrivial = (scenario kind, observer kind, query form, number of hidden operations so far, reply size)."
            .into()
    }
    fn assumptions(&self) -> Vec<String> {
        vec![
            "317 (idle/sign-on times) is masked: timing is outside the statement".into(),
            "for invisible users LIST is not compared (a member count is not in the statement) and the hidden user's channels are used by hidden users only".into(),
            "the observer never shares a channel with a hidden user and queries only after the channel is +s / the user is +i".into(),
        ]
    }
    fn probes(&self) -> Vec<&'static str> {
        vec!["scenario.secret_channel", "scenario.invisible_user", "observer.oper", "observer.invisible", "observer.ex_member", "query.WHO", "query.NAMES", "query.LIST", "query.WHOIS", "speak_blocked_ok"]
    }

    fn gen(&self, run_seed: u64, idx: u64, _tier: Tier) -> Trace {
        let mut r = Rng::new(run_seed);
        let secret = idx % 2 == 0;
        let mut cfg = SimConfig::default();
        cfg.operators.push(OperCfg { name: "root".into(), password: "rootpw".into(), mask: None });
        let default_invisible = !secret && r.chance(1, 3);
        if !secret && default_invisible {
            cfg.default_user_modes.invisible = true;
        }
        if r.chance(1, 4) {
            cfg.channels.push(ChanCfg { name: "#pre".into(), topic: Some("t".into()), ..Default::default() });
        }
        let mut direct_only = false;
        if secret && r.chance(1, 4) {
            // the hidden channel may also be a predefined secret channel that hidden users populate
            cfg.channels.push(ChanCfg { name: "#hid".into(), secret: true, topic: Some("cfg secret".into()), ..Default::default() });
        } else if secret && r.chance(1, 5) {
            // ... or a predefined channel that is public in the configuration and made secret at run time by its
            // configured operator. A world "without it" does not exist then: only the direct clause is judged
            // (an outsider's replies to queries that do not name the channel never mention it).
            cfg.channels.push(ChanCfg { name: "#hid".into(), secret: false, topic: Some("public by configuration".into()), operators: vec!["hxa".into()], ..Default::default() });
            direct_only = true;
        }
        let mut prof = profile_for("C12");
        prof.pre_register = 3;
        prof.conns = (3, 4);
        prof.steps = (4, 10);
        let mut g = Gen::new(r.next_u64(), &cfg, &prof);
        g.setup();
        // observer
        let obs = g.open_conn();
        g.exclude.push(obs);
        // the observer's nickname may differ from a hidden user's only by letter case (distinct users for this server)
        let onick: &str = ["watcher", "watcher", "watcher", "watcher", "HXA", "Hxa", "hYB"][r.below(7)];
        raw(&mut g, obs, &format!("NICK {}", onick));
        raw(&mut g, obs, "USER watch 0 * :The Watcher");
        let okind = r.below(6);
        let okind_name = ["plain", "oper", "invisible", "multi_prefix", "ex_member", "ex_member_kicked"][okind];
        let hidden_chan_name = if secret { "#hid" } else { "#inv" };
        match okind {
            1 => raw(&mut g, obs, "OPER root rootpw"),
            2 => raw(&mut g, obs, &format!("MODE {} +i", onick)),
            3 => raw(&mut g, obs, "CAP REQ :multi-prefix"),
            4 if !cfg.channels.iter().any(|c| c.name == hidden_chan_name) => {
                // the observer once was the only member of a channel of that name and left it (public history, both worlds)
                raw(&mut g, obs, &format!("JOIN {}", hidden_chan_name));
                raw(&mut g, obs, &format!("TOPIC {} :old times", hidden_chan_name));
                raw(&mut g, obs, &format!("PART {}", hidden_chan_name));
            }
            5 if !cfg.channels.iter().any(|c| c.name == hidden_chan_name) => {
                raw(&mut g, obs, &format!("JOIN {},#obs2", hidden_chan_name));
                raw(&mut g, obs, &format!("MODE {} -o {}", hidden_chan_name, onick));
                raw(&mut g, obs, &format!("PART {},#obs2", hidden_chan_name));
            }
            _ => {}
        }
        // hidden connections (exist in both worlds; what they do inside the markers happens in world A only)
        let h1 = g.open_conn();
        let h2 = g.open_conn();
        g.exclude.push(h1);
        g.exclude.push(h2);
        let (hn1, hn2) = ("hxa", "hyb");
        let hidden_chan = if secret { "#hid" } else { "#inv" };
        let mut hidden_ops = 0u32;
        let mut params = HashMap::new();
        params.insert("scenario".to_string(), if secret { "secret_channel" } else { "invisible_user" }.to_string());
        params.insert("observer".to_string(), okind_name.to_string());
        params.insert("obs_conn".to_string(), obs.to_string());
        params.insert("direct_only".to_string(), (direct_only as u8).to_string());
        params.insert("obs_nick".to_string(), onick.to_string());
        params.insert("hidden_conns".to_string(), format!("{},{}", h1, h2));
        params.insert("hidden_chan".to_string(), hidden_chan.to_string());
        if secret {
            // hidden users are ordinary visible users in both worlds
            raw(&mut g, h1, &format!("NICK {}", hn1));
            raw(&mut g, h1, "USER hx 0 * :Hidden X");
            raw(&mut g, h2, &format!("NICK {}", hn2));
            raw(&mut g, h2, "USER hy 0 * :Hidden Y");
            if r.chance(1, 2) {
                raw(&mut g, h1, "JOIN #a");
            }
        }
        let queries = |r: &mut Rng, secret: bool| -> Vec<String> {
            let mut q: Vec<String> = vec![];
            let all: Vec<String> = if secret {
                vec![
                    "LIST".into(),
                    format!("LIST {}", hidden_chan),
                    format!("LIST {},#a", hidden_chan),
                    format!("LIST #a,{}", hidden_chan),
                    "NAMES".into(),
                    format!("NAMES {}", hidden_chan),
                    format!("NAMES #a,{}", hidden_chan),
                    format!("WHO {}", hidden_chan),
                    "WHO #h*".into(),
                    "WHO *".into(),
                    format!("WHO {}", hn1),
                    "WHO h*".into(),
                    format!("WHOIS {}", hn1),
                    format!("WHOIS {},{}", hn1, hn2),
                    "WHOIS h*".into(),
                    "WHOIS *".into(),
                    "WHO *Hidden*".into(),
                ]
            } else {
                vec![
                    "NAMES".into(),
                    format!("NAMES {}", hidden_chan),
                    format!("NAMES #a,{}", hidden_chan),
                    format!("WHO {}", hidden_chan),
                    "WHO *".into(),
                    format!("WHO {}", hn1),
                    "WHO h*".into(),
                    "WHO *10.0.0.*".into(),
                    "WHO *Hidden*".into(),
                    format!("WHOIS {}", hn1),
                    format!("WHOIS {},{}", hn1, hn2),
                    "WHOIS h*".into(),
                    "WHOIS *".into(),
                    "WHO #a".into(),
                ]
            };
            let n = r.range(3, 7);
            for _ in 0..n {
                q.push(all[r.below(all.len())].clone());
            }
            q
        };
        let rounds = r.range(2, 4);
        let mut hidden_started = false;
        for round in 0..rounds {
            // --- hidden operations (world A only)
            g.mark("hidden:on");
            if secret {
                if !hidden_started {
                    raw(&mut g, h1, &format!("JOIN {}", hidden_chan));
                    raw(&mut g, h1, &format!("MODE {} +s", hidden_chan));
                    hidden_started = true;
                    hidden_ops += 2;
                }
                let nops = r.range(1, 4);
                for _ in 0..nops {
                    let op = match r.below(9) {
                        0 => (h2, format!("JOIN {}", hidden_chan)),
                        1 => (h1, format!("TOPIC {} :secret plan {}", hidden_chan, round)),
                        2 => (h1, format!("MODE {} +v {}", hidden_chan, hn2)),
                        3 => (h1, format!("MODE {} +o {}", hidden_chan, hn2)),
                        4 => (h1, format!("PRIVMSG {} :psst {}", hidden_chan, round)),
                        5 => (h2, format!("PART {}", hidden_chan)),
                        6 => (h1, format!("MODE {} +k sesame", hidden_chan)),
                        7 => (h1, format!("MODE {} +b {}!*@*", hidden_chan, onick)),
                        _ => (h1, format!("INVITE {} {}", hn2, hidden_chan)),
                    };
                    raw(&mut g, op.0, &op.1);
                    hidden_ops += 1;
                }
            } else {
                if !hidden_started {
                    raw(&mut g, h1, &format!("NICK {}", hn1));
                    raw(&mut g, h1, "USER hx 0 * :Hidden X");
                    if !default_invisible {
                        raw(&mut g, h1, &format!("MODE {} +i", hn1));
                    }
                    raw(&mut g, h1, &format!("JOIN {}", hidden_chan));
                    hidden_started = true;
                    hidden_ops += 3;
                }
                let nops = r.range(1, 3);
                for _ in 0..nops {
                    let second_up = g.actions.iter().any(|a| matches!(a, Action::Send { c, d } if *c == h2 && d.starts_with("NICK")));
                    let op = match r.below(7) {
                        0 if !second_up => (h2, format!("NICK {}", hn2)),
                        1 => (h1, format!("TOPIC {} :invisible ink", hidden_chan)),
                        2 => (h1, "AWAY :not here".to_string()),
                        3 => (h1, format!("PRIVMSG {} :anyone", hidden_chan)),
                        4 => (h1, format!("MODE {} +m", hidden_chan)),
                        5 => (h1, "OPER root rootpw".to_string()),
                        _ => (h1, format!("JOIN {}2", hidden_chan)),
                    };
                    raw(&mut g, op.0, &op.1);
                    if op.1.starts_with("NICK hyb") {
                        raw(&mut g, h2, "USER hy 0 * :Hidden Y");
                        if !default_invisible {
                            raw(&mut g, h2, &format!("MODE {} +i", hn2));
                        }
                        raw(&mut g, h2, &format!("JOIN {}", hidden_chan));
                    }
                    hidden_ops += 1;
                }
            }
            g.mark("hidden:off");
            // --- public activity (both worlds)
            g.run();
            // --- the observer asks
            for q in queries(&mut r, secret) {
                g.mark(&format!("observe:{}", hidden_ops));
                raw(&mut g, obs, &q);
            }
            if secret {
                // cannot speak into it (judged in world A)
                g.mark("speak");
                raw(&mut g, obs, &format!("PRIVMSG {} :let me in {}", hidden_chan, round));
                g.mark("speak");
                raw(&mut g, obs, &format!("NOTICE {} :let me in {}", hidden_chan, round));
            }
        }
        Trace { check: "C12".into(), seed: 0, run_seed, config: cfg, params, actions: g.actions }
    }

    fn exec(&self, trace: &Trace) -> Outcome {
        let ta = trace.clone();
        let tb = trace.clone();
        let ra = rt::run_sim_timeout(trace.run_seed, 60, move || async move { run_world(ta, true).await });
        let rb = rt::run_sim_timeout(trace.run_seed, 60, move || async move { run_world(tb, false).await });
        let (a, b) = match (ra, rb) {
            (Ok(a), Ok(b)) => (a, b),
            (Err(e), _) | (_, Err(e)) => return Outcome::harness_error(e),
        };
        let mut out = Outcome::new();
        out.steps = a.steps + b.steps;
        out.vt_ms = a.vt_ms + b.vt_ms;
        out.digest = a.digest ^ b.digest.rotate_left(1);
        out.tails = a.tails.clone();
        out.helper_panics = a.helper_panics.clone();
        let scen = trace.params.get("scenario").cloned().unwrap_or_default();
        let okind = trace.params.get("observer").cloned().unwrap_or_default();
        out.count(&format!("scenario.{}", scen), 1);
        out.count(&format!("observer.{}", okind), 1);
        if let Some(p) = a.panic.clone().or(b.panic.clone()) {
            out.status = Status::Abandoned(format!("foreign:C05:panic:{}", p));
            return out;
        }
        if let Some((step, msg)) = a.speak_violation.clone() {
            out.violation = Some(Violation { property: "C12".into(), class: "secrecy".into(), sig: "outsider_spoke_into_secret_channel".into(), step, msg });
            return out;
        }
        out.count("speak_blocked_ok", a.speak_ok);
        let direct_only = trace.params.get("direct_only").map_or(false, |s| s == "1");
        let hidden_chan = trace.params.get("hidden_chan").cloned().unwrap_or_default();
        if direct_only {
            out.count("scenario.predefined_public_made_secret", 1);
        }
        for (i, (qa, qb)) in a.queries.iter().zip(b.queries.iter()).enumerate() {
            let verb = qa.query.split(' ').next().unwrap_or("").to_string();
            out.count(&format!("query.{}", verb), 1);
            if scen == "secret_channel" && qa.secret_confirmed && !hidden_chan.is_empty() && !qa.query.contains(&hidden_chan) {
                // direct clause: a query that does not name the secret channel is never answered with its name
                if let Some(l) = qa.lines.iter().find(|l| l.split(|c: char| c == ' ' || c == ',' || c == '\u{1f}').any(|w| w.trim_start_matches(|c: char| "~&@%+".contains(c)) == hidden_chan)) {
                    out.violation = Some(Violation {
                        property: "C12".into(),
                        class: "secrecy".into(),
                        sig: format!("{}:{}:named", scen, verb),
                        step: qa.step,
                        msg: format!("observer ({}) query #{} {:?} was answered with a line naming the secret channel: {:?}", okind, i, qa.query, l),
                    });
                    return out;
                }
                out.count("direct_clause_ok", 1);
            }
            if direct_only {
                continue;
            }
            if scen == "invisible_user" && verb == "LIST" {
                continue;
            }
            let form = if qa.query.contains(',') { "list" } else if qa.query.contains('*') { "mask" } else if qa.query.contains(' ') { "name" } else { "noarg" };
            out.cov_keys.push(hash_key(&[&scen, &okind, &verb, form, &qa.hidden_ops.to_string(), &std::cmp::min(qa.lines.len(), 6).to_string()]));
            if qa.lines != qb.lines {
                let only_a: Vec<&String> = qa.lines.iter().filter(|l| !qb.lines.contains(l)).collect();
                let only_b: Vec<&String> = qb.lines.iter().filter(|l| !qa.lines.contains(l)).collect();
                let head = only_a.first().or(only_b.first()).map(|l| l.split(' ').next().unwrap_or("").to_string()).unwrap_or_default();
                out.violation = Some(Violation {
                    property: "C12".into(),
                    class: "secrecy".into(),
                    sig: format!("{}:{}:{}", scen, verb, head),
                    step: qa.step,
                    msg: format!(
                        "observer ({}) query #{} {:?}: replies differ between the world with the hidden {} and the world without it; only with it: {:?}; only without it: {:?}",
                        okind, i, qa.query, scen, only_a, only_b
                    ),
                });
                return out;
            }
        }
        if a.queries.len() != b.queries.len() {
            out.status = Status::Inconclusive("HARNESS: worlds disagree on number of queries".into());
        }
        out
    }
}

#[derive(Clone, Debug)]
struct QueryObs {
    query: String,
    step: usize,
    hidden_ops: u32,
    lines: Vec<String>,
    /// the hidden channel was known to be +s when the query was answered (its members saw the MODE, or it is secret by configuration)
    secret_confirmed: bool,
}

#[derive(Clone, Debug, Default)]
struct WorldRun {
    queries: Vec<QueryObs>,
    speak_violation: Option<(usize, String)>,
    speak_ok: u64,
    panic: Option<String>,
    steps: u64,
    vt_ms: u64,
    digest: u64,
    tails: Vec<Vec<String>>,
    helper_panics: Vec<String>,
}

async fn run_world(t: Trace, with_hidden: bool) -> WorldRun {
    let mut wr = WorldRun::default();
    let mut w = World::new(&t.config).await;
    let obs_conn: usize = t.params.get("obs_conn").and_then(|s| s.parse().ok()).unwrap_or(0);
    let obs_nick: String = t.params.get("obs_nick").cloned().unwrap_or_else(|| "watcher".to_string());
    let hidden_conns: Vec<usize> = t.params.get("hidden_conns").map(|s| s.split(',').filter_map(|x| x.parse().ok()).collect()).unwrap_or_default();
    let mut hidden = false;
    let mut pending_query: Option<(String, u32)> = None;
    let mut observing: Option<u32> = None;
    let mut speaking = false;
    let mut step = 0usize;
    let hidden_chan_name: String = t.params.get("hidden_chan").cloned().unwrap_or_default();
    let mut secret_confirmed = t.config.channels.iter().any(|c| c.name == hidden_chan_name && c.secret);
    for a in &t.actions {
        match a {
            Action::Mark { m } => {
                if m == "hidden:on" {
                    hidden = true;
                } else if m == "hidden:off" {
                    hidden = false;
                } else if let Some(n) = m.strip_prefix("observe:") {
                    observing = n.parse().ok();
                } else if m == "speak" {
                    speaking = true;
                }
            }
            Action::Send { c, d } => {
                if hidden && !with_hidden {
                    continue;
                }
                if *c == obs_conn {
                    if let Some(n) = observing.take() {
                        let q = String::from_utf8_lossy(&unesc(d)).trim_end().to_string();
                        pending_query = Some((q, n));
                    }
                }
                w.apply(a).await;
            }
            Action::Settle => {
                if hidden && !with_hidden {
                    continue;
                }
                w.apply(a).await;
                let obs = w.observe();
                for (tid, msg) in rt::take_panic_log() {
                    if tid.and_then(|id| w.conn_of_task(id)).is_some() {
                        wr.panic = Some(msg);
                    } else {
                        wr.helper_panics.push(msg);
                    }
                }
                for h in &hidden_conns {
                    for l in obs.get(*h).map(|o| o.lines.as_slice()).unwrap_or(&[]) {
                        if let Some(p) = irc::parse(l) {
                            if p.cmd == "MODE" && p.p(0) == hidden_chan_name && p.params.get(1).map_or(false, |m| m.starts_with('+') && m.contains('s') && !m.contains('-')) {
                                secret_confirmed = true;
                            }
                        }
                    }
                }
                if let Some((q, n)) = pending_query.take() {
                    let mut lines: Vec<String> = obs[obs_conn].lines.iter().map(|l| canon(l)).collect();
                    lines.sort();
                    wr.queries.push(QueryObs { query: q, step, hidden_ops: n, lines, secret_confirmed });
                }
                if speaking {
                    speaking = false;
                    if with_hidden {
                        let leaked: Vec<String> = hidden_conns
                            .iter()
                            .flat_map(|h| obs[*h].lines.iter())
                            .filter(|l| irc::parse(l).map_or(false, |p| (p.cmd == "PRIVMSG" || p.cmd == "NOTICE") && p.nick_of_source() == Some(obs_nick.as_str())))
                            .cloned()
                            .collect();
                        if !leaked.is_empty() {
                            wr.speak_violation = Some((step, format!("an outsider's message was delivered into the secret channel: {:?}", leaked)));
                        } else {
                            wr.speak_ok += 1;
                        }
                    }
                }
                step += 1;
                if wr.panic.is_some() {
                    break;
                }
            }
            other => {
                w.apply(other).await;
            }
        }
    }
    wr.steps = w.steps;
    wr.vt_ms = rt::virtual_elapsed_ms();
    wr.digest = w.digest;
    wr.tails = w.conns.iter().map(|c| c.all_lines.iter().rev().take(10).rev().cloned().collect()).collect();
    wr
}
