#!/bin/bash
# Sensitivity self-check for the repaired defects: reverting each "fix:" commit of /repo (one at a time, in the
# working tree only) must make the check of the property it is filed under in known_findings.txt report a violation again.
cd /verif
miss=0
T=$(mktemp -d)
grep '^fixed:' known_findings.txt | while read -r _ prop commit _; do
  p=${prop#property=}
  git -C /repo diff "$commit" "$commit~1" > "$T/$commit.diff"
  out=$(SEED_RUNS=${SEED_RUNS:-40000} scripts/try_seed.sh "$T/$commit.diff" "$p" 2>&1 | grep "^== ")
  if echo "$out" | grep -q "rc=1"; then echo "REPORTED-AGAIN $commit by $p"; else echo "MISSED revert of $commit by $p :: $out"; fi
done
rm -rf "$T"
git -C /repo status --short | head -3
