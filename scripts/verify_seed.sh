#!/bin/bash
# usage: scripts/verify_seed.sh <Cxx>   - confirms a seeded defect in its scratch worktree:
#  demo passes without the patch, fails with it, baseline 38/38 passes with the patch alone.
id="$1"; W=${SEEDROOT:-/tmp/seed}-$id/wt; O=${SEEDROOT:-/tmp/seed}-$id/out
cd "$W" || exit 2
git checkout -q -- . ; git clean -fdq src
t=$(python3 -c "import json;print(json.load(open('$O/meta.json'))['demo_test'])")
run_demo() { for i in 1 2 3; do out=$(cargo test --offline "$t" -- --test-threads=1 2>&1); if echo "$out" | grep -q "Address already in use"; then sleep 3; continue; fi; break; done; echo "$out" | grep -E "^test result" | head -3; echo "$out" | grep -qE "test result: ok\. [1-9][0-9]* passed; 0 failed"; }
git apply "$O/demo.diff" || { echo "RESULT $id demo.diff does not apply"; exit 1; }
if run_demo; then a=pass; else a=fail; fi
git apply "$O/patch.diff" || { echo "RESULT $id patch.diff does not apply on demo"; git checkout -q -- .; exit 1; }
if run_demo; then b=pass; else b=fail; fi
git checkout -q -- . ; git clean -fdq src
git apply "$O/patch.diff"
if VERIF_REPO=$W /tmp/seedtools/baseline_off.sh | grep -q "BASELINE-OK 38/38"; then c=ok; else c=bad; fi
git checkout -q -- . ; git clean -fdq src
echo "RESULT $id demo_without_patch=$a demo_with_patch=$b baseline_with_patch=$c"
