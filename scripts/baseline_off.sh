#!/bin/bash
# Runs the 38 stable baseline tests of /repo with the verification guard OFF.
set -u
REPO="${VERIF_REPO:-/repo}"
cd "$REPO" || exit 2
export CARGO_NET_OFFLINE=true
unset RUSTFLAGS
names=$(tr '\n' ' ' < /verif/scripts/baseline_tests.txt)
out=$(cargo test --offline -- --exact $names 2>&1)
echo "$out" | grep -E "^test |^test result"
echo "$out" | grep -q "test result: ok. 38 passed; 0 failed" && { echo "BASELINE-OK 38/38"; exit 0; }
echo "BASELINE-FAILED"; exit 1
