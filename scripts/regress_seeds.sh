#!/bin/bash
# Sensitivity self-check: every kept seeded defect must still be reported by the first check listed in its
# meta.json (applies the patch to /repo, runs the check, reverts). Prints one line per seed; exit 1 if any is missed.
cd /verif
miss=0
for d in seeded/*/; do
  id=$(basename $d)
  chk=$(python3 -c "import json;print(json.load(open('$d/meta.json'))['caught_by'][0])")
  out=$(SEED_RUNS=${SEED_RUNS:-20000} scripts/try_seed.sh /verif/$d/patch.diff $chk 2>&1 | grep "^== ")
  if echo "$out" | grep -q "rc=1"; then echo "CAUGHT $id by $chk"; else echo "MISSED $id by $chk :: $out"; miss=1; fi
done
git -C /repo status --short | head -3
exit $miss
