#!/bin/bash
# usage: scripts/try_seed.sh <patch.diff> <check id>...   - applies a seeded defect to /repo, runs checks, reverts.
P="$1"; shift
cd /repo || exit 2
if ! git apply --check "$P" 2>/dev/null; then
  if ! git apply --3way --check "$P" 2>/dev/null; then echo "PATCH-DOES-NOT-APPLY $P"; exit 3; fi
  git apply --3way "$P" || exit 3
else
  git apply "$P" || exit 3
fi
cd /verif
# the runs below rewrite evidence/<id>.json with what they saw on the *patched* tree: keep the committed files
B=$(mktemp -d /tmp/evidence-keep.XXXXXX); cp -a evidence/. "$B"/
for c in "$@"; do
  out=$(VERIF_RUNS=${SEED_RUNS:-20000} ./check "$c" quick 2>&1)
  rc=$?
  echo "== $c rc=$rc :: $(echo "$out" | grep -E '^violation:' | head -1 | cut -c1-300)"
  echo "$out" | grep -E "abandoned:|HARNESS" | cut -c1-300
done
cp -a "$B"/. /verif/evidence/; rm -rf "$B"
cd /repo && git checkout -- . && git status --short | head
