#!/usr/bin/env python3
# Regenerates /verif/MANIFEST.json from the table below (keeps not_applicable current).
import json, subprocess
props=[json.loads(l) for l in open('/verif/properties.jsonl')]
hook_commit=subprocess.check_output(['git','-C','/repo','log','--format=%h','--grep=verif hooks']).decode().split()
SIM="deterministic simulation with fault injection"
C={
 'C01':("exploration","step mode: model-guided multi-client histories (joins/parts/kicks/nick and mode changes/disconnects incl. EOF, reset, half-open) followed by PRIVMSG/NOTICE to mixed target lists; every line on every connection compared with the reference model as multisets: exactly the audience, once, with the sender's current prefix, target and text as sent","§7 C01"),
 'C03':("exploration","step mode: random words over PASS/NICK/USER/CAP/AUTHENTICATE/QUIT and gated verbs on fresh connections under a swarm of password/configured-user/mask configurations (real argon2); oracle: exactly one 451 and no effect before registration, 001 iff all completion conditions hold, 464+close otherwise","§7 C03"),
 'C04':("exploration","step mode: membership churn with NAMES/WHO/WHOIS probes from members and outsiders; roster replies and JOIN/PART/KICK/NICK announcements compared with the model after every step","§7 C04"),
 'C05':("exploration","grammar+mutation fuzzing of all 41 verbs in 7 session states, delivered whole/fragmented/pipelined; model-free oracle: no handler panic or hang, sender and bystanders alive and still exchanging messages","§7 C05"),
 'C06':("fault_enumeration","every one of 15 ending kinds x 5 positions of every generated history; survivors audit before/after (NAMES/WHO/MODE/WHOIS/WHOWAS/ISON/LUSERS/LIST/WALLOPS), the nickname is re-registered, emptied channels re-created, pending invitations used","§7 C06"),
 'C07':("exploration","step mode: channel states built with real MODE/INVITE commands and predefined-channel configuration; JOIN admitted iff the six-condition conjunction holds in the model; refusals numeric-checked (any violated condition), no announcement, invitation kept/consumed","§7 C07"),
 'C08':("exploration","step mode: MODE strings (all 15 letters, both signs, composite, all actor/target ranks); announcement = accepted changes (redundant ones optional), 482/442/441, later 324/list/353 probes and enforcement by JOIN/PRIVMSG/TOPIC/KICK via the same model","§7 C08"),
 'C09':("exploration","step mode: KICK/TOPIC/INVITE by every rank against every rank, multi-target lists, +t/+i states; recipients, numerics, later TOPIC/LIST/JOIN effects vs model","§7 C09"),
 'C10':("exploration","step mode: PRIVMSG/NOTICE under +n/+s/+m/ban/exception x membership/rank; deliver iff speak predicate, 404 only for PRIVMSG, nothing at all to a NOTICE sender, 301 for away recipients","§7 C10"),
 'C11':("exploration","step mode: OPER (right/wrong name, password, mask), user MODE with every letter/sign, nick changes to configured operator names, KILL/DIE/SQUIT/WALLOPS/STATS from every privilege level; privilege observable (221/313/379/*, 481/483) = model after every step","§7 C11"),
 'C15':("exploration","step mode: NICK onto free/own/taken/invalid names in arbitrary user state, followed by probes (353 prefixes, 324 rank lists, 221, WALLOPS, 301, JOIN by invitation, WHOWAS, re-use of the old nick)","§7 C15"),
 'C16':("exploration","step mode: create/use/empty (PART, KICK, QUIT, EOF, reset, KILL)/re-create cycles and predefined channels with every subset of settings; founder on creation, vanish on emptiness, fresh state on re-creation, configured ranks on every join","§7 C16"),
 'C19':("exploration","step mode: registrations, +i/-i, OPER (repeated), -o/-O, nick changes, channel churn and all endings with LUSERS/ISON/USERHOST probes; max_connections slot accounting with refused/served opens","§7 C19"),
}
checks=[]
for pid in sorted(C):
    lvl,text,ref=C[pid]
    checks.append({"property_id":pid,"quick_cmd":f"./check {pid} quick","thorough_cmd":f"./check {pid} thorough","evidence_file":f"/verif/evidence/{pid}.json",
      "replay_cmd_template":"./check --replay {path}","engine":"sircsim",
      "level_claimed":{"category":lvl,"text":"seeded deterministic simulation of the real server: "+text,"design_ref":"DESIGN.md "+ref},
      "level_note":"samples histories/schedules/faults (fixed seed, fixed run counts); a clean batch is evidence, not proof. Trusted base: simulated transport standing for TCP, tokio current_thread runtime with paused clock, the reference model (written from the property statements) and its attribution table.",
      "technique":SIM+(" (fault enumeration over ending kinds x positions)" if lvl=="fault_enumeration" else " (seeded schedule/fault/workload search, reference-model oracle)" if pid!='C05' else " (seeded fuzz workload, fragmentation/pipelining faults, model-free liveness oracle)")})
m={"version":1,
 "setup_cmd":"cd /verif/sim && CARGO_NET_OFFLINE=true cargo build --offline --profile verif",
 "hooks":{"guard":"sirc_verif","enable":"rustflags --cfg sirc_verif --cfg tokio_unstable via /verif/sim/.cargo/config.toml (shadow manifest /verif/sim/Cargo.toml compiles /repo/src by #[path])",
   "baseline_off_cmd":"/verif/scripts/baseline_off.sh","source_commits":hook_commit,"add_only":True},
 "engines":[{"name":"sircsim","path":"/verif/sim","serves_properties":sorted(C),"kind_free_text":"deterministic discrete-event simulation of the real server (tokio current_thread, paused clock, simulated TCP, seeded entropy/clock/select, gates at lock acquisitions) with seeded fault and schedule search"}],
 "checks":checks,
 "not_applicable":[{"property_id":p['id'],"reason":"simulation check still under construction in this round (planned, see DESIGN.md §7); not claimed yet"} for p in props if p['id'] not in C],
 "notes":"All checks run through ./check, which rebuilds the simulator from /repo's working tree. Exit 0 held / 1 VIOLATION / 2 harness error. Known findings: /verif/known_findings.txt."}
json.dump(m,open('/verif/MANIFEST.json','w'),indent=1)
print("claimed",len(C))
