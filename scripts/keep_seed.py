#!/usr/bin/env python3
# usage: keep_seed.py <seed-dir-id> <dest-id> "<caught by checks>" "<how I confirmed>"
import json,sys,shutil,os
sid,dest,caught,ran=sys.argv[1:5]
src=f'{os.environ.get("SEEDROOT","/tmp/seed")}-{sid}/out'; dst=f'/verif/seeded/{dest}'
os.makedirs(dst,exist_ok=True)
for f in ('patch.diff','demo.diff'): shutil.copy(f'{src}/{f}',f'{dst}/{f}')
m=json.load(open(f'{src}/meta.json'))
out={"breaks_property":m.get('property',sid),"summary":m.get('summary'),"needs_to_manifest":m.get('needs'),"demonstration":{"file":"demo.diff","test":m.get('demo_test')},
 "confirmed":ran,"caught_by":[w for w in caught.split() if len(w)==3 and w[0]=="C"],"caught_by_note":" ".join(w for w in caught.split() if not (len(w)==3 and w[0]=="C")).strip("() "),"origin":"independent sub-agent given only the property text and a scratch worktree"}
json.dump(out,open(f'{dst}/meta.json','w'),indent=1)
print("kept",dest)
